package main

// Referrers tag-schema family (mode ref, XRef cases of C11_Registry): ONE long-lived
// in-memory OCI distribution registry WITHOUT the Referrers API behind ONE
// registry.NewRepository(remote.Repository) client; 2-3 consecutive notation.SignOCI calls
// on the same artifact; during chosen calls every manifest DELETE fails (blob DELETE
// always works). From the second signature on the client has to replace the subject's
// referrers index (tag sha256-<hex>) and delete the superseded one. After every call the
// store itself is inspected (not through the client): is a signature manifest over the
// resolved subject whose layers[0] is the digest of the signer's envelope listed in the
// subject's referrers index, which bytes are held under layers[0], and which store
// entries that existed before the call are gone.

import (
	"bytes"
	"context"
	"encoding/json"
	"errors"
	"fmt"
	"io"
	"net/http"
	"sort"
	"strings"
	"sync"
	"time"
	. "vh/kit"

	"github.com/notaryproject/notation-core-go/signature"
	"github.com/notaryproject/notation-go"
	"github.com/notaryproject/notation-go/registry"
	"github.com/opencontainers/go-digest"
	ocispec "github.com/opencontainers/image-spec/specs-go/v1"
	"oras.land/oras-go/v2/registry/remote"
)

type refRegistry struct {
	mu                 sync.Mutex
	blobs              map[string][]byte
	manifests          map[string][]byte
	mediaTypes         map[string]string
	tags               map[string]string
	failManifestDelete bool
	log                []string
}

func newRefRegistry() *refRegistry {
	return &refRegistry{blobs: map[string][]byte{}, manifests: map[string][]byte{}, mediaTypes: map[string]string{}, tags: map[string]string{}}
}

func (r *refRegistry) putManifest(ref, mediaType string, data []byte) string {
	dgst := digest.FromBytes(data).String()
	r.manifests[dgst] = data
	r.mediaTypes[dgst] = mediaType
	if !strings.Contains(ref, ":") {
		r.tags[ref] = dgst
	}
	return dgst
}

// keys: every entry of the store.
func (r *refRegistry) keys() map[string]bool {
	r.mu.Lock()
	defer r.mu.Unlock()
	out := map[string]bool{}
	for d := range r.blobs {
		out["blob "+d] = true
	}
	for d := range r.manifests {
		out["manifest "+d] = true
	}
	for t := range r.tags {
		out["tag "+t] = true
	}
	return out
}

func refResp(req *http.Request, code int, header map[string]string, body []byte) *http.Response {
	h := http.Header{}
	for k, v := range header {
		h.Set(k, v)
	}
	resp := &http.Response{StatusCode: code, Status: fmt.Sprintf("%d %s", code, http.StatusText(code)), Header: h, Request: req, ContentLength: int64(len(body))}
	if req.Method == http.MethodHead {
		resp.Body = io.NopCloser(bytes.NewReader(nil))
	} else {
		resp.Body = io.NopCloser(bytes.NewReader(body))
	}
	return resp
}

func (r *refRegistry) Do(req *http.Request) (*http.Response, error) {
	r.mu.Lock()
	defer r.mu.Unlock()
	const prefix = "/v2/demo/"
	path := req.URL.Path
	r.log = append(r.log, req.Method+" "+path)
	if !strings.HasPrefix(path, prefix) {
		return refResp(req, http.StatusNotFound, nil, nil), nil
	}
	path = strings.TrimPrefix(path, prefix)
	switch {
	case path == "blobs/uploads/" && req.Method == http.MethodPost:
		return refResp(req, http.StatusAccepted, map[string]string{"Location": prefix + "blobs/uploads/session"}, nil), nil
	case path == "blobs/uploads/session" && req.Method == http.MethodPut:
		data, err := io.ReadAll(req.Body)
		if err != nil {
			return nil, err
		}
		r.blobs[req.URL.Query().Get("digest")] = data
		return refResp(req, http.StatusCreated, nil, nil), nil
	case strings.HasPrefix(path, "blobs/"):
		dgst := strings.TrimPrefix(path, "blobs/")
		data, ok := r.blobs[dgst]
		if !ok {
			return refResp(req, http.StatusNotFound, nil, nil), nil
		}
		switch req.Method {
		case http.MethodGet, http.MethodHead:
			return refResp(req, http.StatusOK, map[string]string{"Content-Type": "application/octet-stream", "Docker-Content-Digest": dgst}, data), nil
		case http.MethodDelete:
			delete(r.blobs, dgst)
			return refResp(req, http.StatusAccepted, nil, nil), nil
		}
	case strings.HasPrefix(path, "manifests/"):
		ref := strings.TrimPrefix(path, "manifests/")
		if req.Method == http.MethodPut {
			data, err := io.ReadAll(req.Body)
			if err != nil {
				return nil, err
			}
			dgst := r.putManifest(ref, req.Header.Get("Content-Type"), data)
			return refResp(req, http.StatusCreated, map[string]string{"Docker-Content-Digest": dgst}, nil), nil
		}
		dgst := ref
		if d, ok := r.tags[ref]; ok {
			dgst = d
		}
		data, ok := r.manifests[dgst]
		if !ok {
			return refResp(req, http.StatusNotFound, nil, nil), nil
		}
		switch req.Method {
		case http.MethodGet, http.MethodHead:
			return refResp(req, http.StatusOK, map[string]string{"Content-Type": r.mediaTypes[dgst], "Docker-Content-Digest": dgst}, data), nil
		case http.MethodDelete:
			if r.failManifestDelete {
				return refResp(req, http.StatusInternalServerError, nil, nil), nil
			}
			delete(r.manifests, dgst)
			return refResp(req, http.StatusAccepted, nil, nil), nil
		}
	}
	// everything else, the referrers API included, is not supported
	return refResp(req, http.StatusNotFound, nil, nil), nil
}

// subjectIndex: store key of the referrers index of the subject ("" when none) and the
// signature manifests it lists.
func (r *refRegistry) subjectIndex(subject string) (string, []ocispec.Descriptor) {
	r.mu.Lock()
	defer r.mu.Unlock()
	d, err := digest.Parse(subject)
	if err != nil {
		return "", nil
	}
	idxDg, ok := r.tags[d.Algorithm().String()+"-"+d.Encoded()]
	if !ok {
		return "", nil
	}
	data, ok := r.manifests[idxDg]
	if !ok {
		return "", nil
	}
	var idx ocispec.Index
	if json.Unmarshal(data, &idx) != nil {
		return "manifest " + idxDg, nil
	}
	return "manifest " + idxDg, idx.Manifests
}

// attached: inspects the store for the signature of this call.
func (r *refRegistry) attached(subject string, sig []byte) (bool, *string) {
	_, listed := r.subjectIndex(subject)
	r.mu.Lock()
	defer r.mu.Unlock()
	want := digest.FromBytes(sig)
	for _, md := range listed {
		data, ok := r.manifests[md.Digest.String()]
		if !ok {
			continue
		}
		var m ocispec.Manifest
		if json.Unmarshal(data, &m) != nil || m.Subject == nil || m.Subject.Digest.String() != subject || len(m.Layers) == 0 {
			continue
		}
		if m.Layers[0].Digest != want {
			continue
		}
		if b, ok := r.blobs[m.Layers[0].Digest.String()]; ok {
			s := string(b)
			return true, &s
		}
		return true, nil
	}
	return false, nil
}

type refSigner struct {
	id   int64
	n    int
	last []byte
}

func (s *refSigner) Sign(ctx context.Context, desc ocispec.Descriptor, opts notation.SignerSignOptions) ([]byte, *signature.SignerInfo, error) {
	s.n++
	s.last = []byte(fmt.Sprintf("envelope %d/%d over %s", s.id, s.n, desc.Digest))
	info := &signature.SignerInfo{}
	info.SignedAttributes.SigningTime = time.Date(2024, 1, 1, 0, 0, s.n, 0, time.UTC)
	return s.last, info, nil
}

type refPlan struct {
	byDigest bool
	meta     bool
	delFails []bool // per call: manifest DELETE fails
}

func (p refPlan) name() string {
	s := "ref/tag"
	if p.byDigest {
		s = "ref/digest"
	}
	if p.meta {
		s += "/meta"
	}
	for _, f := range p.delFails {
		if f {
			s += "/delfails"
		} else {
			s += "/ok"
		}
	}
	return s
}

func refPlans() []refPlan {
	var out []refPlan
	for n := 2; n <= 3; n++ {
		for bits := 0; bits < 1<<n; bits++ {
			for v := 0; v < 2; v++ {
				p := refPlan{byDigest: v == 1, meta: (bits+v)%2 == 0}
				for k := 0; k < n; k++ {
					p.delFails = append(p.delFails, bits&(1<<k) != 0)
				}
				out = append(out, p)
			}
		}
	}
	return out
}

func refHistory(w *CaseWriter, id int64, p refPlan) error {
	ctx := context.Background()
	reg := newRefRegistry()
	artifact := []byte(`{"schemaVersion":2,"mediaType":"application/vnd.oci.image.manifest.v1+json","config":{"mediaType":"application/vnd.oci.empty.v1+json","digest":"sha256:44136fa355b3678a1146ad16f7e8649e94fb4fc21fe77e8310c060f61caaff8a","size":2},"layers":[],"annotations":{"c11":"` + fmt.Sprint(id) + `"}}`)
	reg.blobs["sha256:44136fa355b3678a1146ad16f7e8649e94fb4fc21fe77e8310c060f61caaff8a"] = []byte("{}")
	artifactDigest := reg.putManifest("v1", ocispec.MediaTypeImageManifest, artifact)
	remoteRepo, err := remote.NewRepository("registry.example/demo")
	if err != nil {
		return err
	}
	remoteRepo.PlainHTTP = true
	remoteRepo.Client = reg
	repo := registry.NewRepository(remoteRepo)
	signer := &refSigner{id: id}
	opts := notation.SignOptions{SignerSignOptions: notation.SignerSignOptions{SignatureMediaType: MtJWS}, ArtifactReference: "v1"}
	if p.byDigest {
		opts.ArtifactReference = artifactDigest
	}
	if p.meta {
		opts.UserMetadata = map[string]string{"k": "v"}
	}
	var callTerms, obsTerms []string
	var descCalls []map[string]any
	for k, fails := range p.delFails {
		before := reg.keys()
		oldIdx, _ := reg.subjectIndex(artifactDigest)
		reg.mu.Lock()
		reg.failManifestDelete = fails
		reg.log = nil
		reg.mu.Unlock()
		signer.last = nil
		desc, _, err := notation.SignOCI(ctx, signer, repo, opts)
		reg.mu.Lock()
		reg.failManifestDelete = false
		reqs := reg.log
		reg.mu.Unlock()
		outcome := "RSuccess"
		var rerr *remote.ReferrersError
		if err != nil {
			outcome = "RFailed"
			if errors.As(err, &rerr) && rerr.IsReferrersIndexDelete() {
				outcome = "RIndexDelete"
			}
		}
		sig := signer.last
		att, env := reg.attached(artifactDigest, sig)
		after := reg.keys()
		var removed []string
		for key := range before {
			if !after[key] {
				removed = append(removed, key)
			}
		}
		sort.Strings(removed)
		old := "None"
		if oldIdx != "" {
			old = CSome(CStr(oldIdx))
		}
		envT := "None"
		if env != nil {
			envT = CSome(CStr(*env))
		}
		callTerms = append(callTerms, CApp("mk_rcall", CStr(string(sig)), old, CBool(fails)))
		obsTerms = append(obsTerms, CApp("mk_robs", outcome, CBool(att), envT, CStrList(removed)))
		errText := ""
		if err != nil {
			errText = err.Error()
		}
		descCalls = append(descCalls, map[string]any{
			"call": k, "reference": opts.ArtifactReference, "user_metadata": opts.UserMetadata, "manifest_DELETE_fails": fails,
			"referrers_index_before": oldIdx, "envelope_from_signer": string(sig),
			"outcome": outcome, "error": errText, "returned_descriptor": desc.Digest.String(), "resolved_subject": artifactDigest,
			"signature_manifest_attached_to_subject": att, "envelope_fetchable_layers0": env, "store_entries_removed": removed, "requests": reqs,
		})
		w.Count("referrers_fallback_outcome", outcome)
	}
	body := CList(callTerms) + " " + CList(obsTerms)
	hd := map[string]any{"family": "referrers tag-schema fallback: one in-memory registry without Referrers API, one registry.NewRepository client, consecutive SignOCI on one artifact", "name": p.name(), "calls": descCalls}
	w.Add(id, "(XRef "+CN(id)+" "+body+")", hd, p.name()+" "+body, true)
	return nil
}
