package main

// Fault family (HOWTO lesson 1 with a fault dimension): ONE registry.Repository
// object (registry.NewRepository) over a store wrapper around a real on-disk
// oci.Store. During one chosen SignOCI call of a history the wrapper fails
// exactly ONE operation the client issues on the store (Resolve, Push of the
// envelope blob, Exists / Push of the empty config, Push of the manifest; the
// indices are those of a recorded clean run), either before the operation
// takes effect or after it; every other call runs on the healthy store.
// Printed as XFault cases for C11_Registry (model: the client keeps no state).

import (
	"context"
	"crypto/sha256"
	"encoding/hex"
	"errors"
	"fmt"
	"io"
	"os"
	"path/filepath"
	. "vh/kit"

	"github.com/notaryproject/notation-go/registry"
	ocispec "github.com/opencontainers/image-spec/specs-go/v1"
	"oras.land/oras-go/v2/content/oci"
)

var errInjected = errors.New("injected transient store failure")

type faultStore struct {
	inner  *oci.Store
	armed  bool
	n      int  // operations seen since arm()
	at     int  // index of the operation to fail (-1: none)
	after  bool // fail after the operation took effect
	ctxErr bool // the injected error is context.DeadlineExceeded
	fired  bool
	ops    []string // Gallina (sop, oout) pairs of the armed window
}

func (s *faultStore) arm(at int, after, ctxErr bool) {
	s.armed, s.n, s.at, s.after, s.ctxErr, s.fired, s.ops = true, 0, at, after, ctxErr, false, nil
}

func (s *faultStore) disarm() { s.armed = false }

// step runs one store operation under the fault plan.
func (s *faultStore) step(op string, do func() error) error {
	if !s.armed {
		return do()
	}
	idx := s.n
	s.n++
	if idx == s.at && !s.fired {
		s.fired = true
		out := "OInjBefore"
		if s.after {
			do()
			out = "OInjAfter"
		}
		s.ops = append(s.ops, CPair(op, out))
		if s.ctxErr {
			return context.DeadlineExceeded
		}
		return errInjected
	}
	err := do()
	if err != nil {
		s.ops = append(s.ops, CPair(op, "ONatural"))
	} else {
		s.ops = append(s.ops, CPair(op, "OOk"))
	}
	return err
}

func pushOp(d ocispec.Descriptor) string {
	switch d.MediaType {
	case MtJWS, MtCOSE:
		return "OPushBlob"
	case registry.ArtifactTypeNotation:
		return "OPushCfg"
	case ocispec.MediaTypeImageManifest:
		return "OPushMan"
	}
	return "OOther"
}

func (s *faultStore) Resolve(ctx context.Context, ref string) (d ocispec.Descriptor, err error) {
	err = s.step("OResolve", func() (e error) { d, e = s.inner.Resolve(ctx, ref); return })
	if err != nil {
		d = ocispec.Descriptor{}
	}
	return
}

func (s *faultStore) Exists(ctx context.Context, t ocispec.Descriptor) (ok bool, err error) {
	op := "OOther"
	if t.MediaType == registry.ArtifactTypeNotation {
		op = "OExistsCfg"
	}
	err = s.step(op, func() (e error) { ok, e = s.inner.Exists(ctx, t); return })
	if err != nil {
		ok = false
	}
	return
}

func (s *faultStore) Push(ctx context.Context, d ocispec.Descriptor, r io.Reader) error {
	return s.step(pushOp(d), func() error { return s.inner.Push(ctx, d, r) })
}

func (s *faultStore) Fetch(ctx context.Context, t ocispec.Descriptor) (rc io.ReadCloser, err error) {
	err = s.step("OOther", func() (e error) { rc, e = s.inner.Fetch(ctx, t); return })
	if err != nil {
		rc = nil
	}
	return
}

func (s *faultStore) Tag(ctx context.Context, d ocispec.Descriptor, ref string) error {
	return s.step("OOther", func() error { return s.inner.Tag(ctx, d, ref) })
}

func (s *faultStore) Predecessors(ctx context.Context, n ocispec.Descriptor) (ds []ocispec.Descriptor, err error) {
	err = s.step("OOther", func() (e error) { ds, e = s.inner.Predecessors(ctx, n); return })
	return
}

// blobPresent: the layout holds a blob with these bytes.
func blobPresent(dir string, content string) bool {
	h := sha256.Sum256([]byte(content))
	_, err := os.Stat(filepath.Join(dir, "blobs", "sha256", hex.EncodeToString(h[:])))
	return err == nil
}

// faultPlan: what distinguishes one history of the family.
type faultPlan struct {
	variant   int  // options / layout variant
	faultCall int  // index of the call during which the store fails (-1: clean history)
	at        int  // index of the operation
	after     bool // after the effect
	ctxErr    bool
	sameSig   bool // the signer answers every call with the same envelope bytes
	nCalls    int
}

func (p faultPlan) name() string {
	if p.faultCall < 0 {
		return fmt.Sprintf("v%d/clean/samesig=%v", p.variant, p.sameSig)
	}
	k := "before"
	if p.after {
		k = "after"
	}
	if p.sameSig {
		k += "/samesig"
	}
	return fmt.Sprintf("v%d/call%d/op%d/%s", p.variant, p.faultCall, p.at, k)
}

// faultScenario builds the scenario (two artifacts, the steps) of a plan.
func faultScenario(p faultPlan) *scenario {
	var annV1 map[string]string
	var step *callSpec
	switch p.variant {
	case 0: // tag, metadata, no plugin annotations, annotated artifact
		annV1 = map[string]string{"a": "1", "k": "v"}
		step = okStep("v1", map[string]string{"m1": "v"})
	case 1: // by digest, no metadata, plugin annotations with a stale thumbprint, artifact without annotations
		annV1 = nil
		step = okStep("digest:v1", nil)
		step.PA, step.pa = "map", map[string]string{kThumb: "stale", "p": ""}
	case 2: // full reference, empty-valued metadata and annotation, plugin config, nil plugin annotations
		annV1 = map[string]string{"a": ""}
		step = okStep("full:v1", map[string]string{"m2": ""})
		step.pcfg = map[string]string{"cfg": "1"}
		step.PA = "nil"
		step.Mt = MtCOSE
	default: // the empty config blob is in the layout before the first call
		annV1 = map[string]string{"a": "1"}
		step = okStep("v1", map[string]string{"m1": "v", "m2": "w"})
	}
	sc := &scenario{name: "fault/" + p.name(), annV1: annV1, annV2: map[string]string{"b": "2"}, preConfig: p.variant == 3}
	for k := 0; k < p.nCalls; k++ {
		cp := *step // the same option and map objects in every call
		cp.faultAt = -1
		if k == p.faultCall {
			cp.faultAt, cp.faultAfter, cp.faultCtx = p.at, p.after, p.ctxErr
			cp.Fault = fmt.Sprintf("store operation %d of this call fails once (after its effect: %v, as context.DeadlineExceeded: %v)", p.at, p.after, p.ctxErr)
		}
		if p.sameSig {
			cp.sigFixed = "same envelope bytes"
			cp.SameSig = true
		}
		sc.steps = append(sc.steps, &cp)
	}
	return sc
}

// faultPlans enumerates the family; [cleanOps(variant)] is the recorded number of store
// operations of the first and of a later clean call of that variant.
func faultPlans(tier string, cleanOps func(variant int) (first, later int)) []faultPlan {
	var out []faultPlan
	for v := 0; v < 4; v++ {
		first, later := cleanOps(v)
		out = append(out, faultPlan{variant: v, faultCall: -1, nCalls: 3})
		// fail once in the first call, two further calls on the healthy store; one index
		// beyond the recorded run (the fault never fires: a clean history)
		for at := 0; at <= first; at++ {
			for _, after := range []bool{false, true} {
				out = append(out, faultPlan{variant: v, faultCall: 0, at: at, after: after, ctxErr: (at+v)%2 == 1, nCalls: 3})
			}
		}
		// a good call, the failing call, a good call
		for at := 0; at <= later; at++ {
			for _, after := range []bool{false, true} {
				if tier != "thorough" && v >= 2 && after {
					continue
				}
				out = append(out, faultPlan{variant: v, faultCall: 1, at: at, after: after, ctxErr: (at+v)%2 == 0, nCalls: 3})
			}
		}
		if v < 2 {
			// a signer that returns the same envelope bytes every time: the layout refuses the
			// second Push of the blob (observed; the model says so)
			out = append(out, faultPlan{variant: v, faultCall: -1, sameSig: true, nCalls: 3})
			out = append(out, faultPlan{variant: v, faultCall: 0, at: 2, sameSig: true, nCalls: 3})
		}
	}
	return out
}
