package main

import (
	"context"
	"fmt"
	"strings"
	"time"

	"github.com/notaryproject/notation-core-go/signature"
	"github.com/notaryproject/notation-go"
	"github.com/notaryproject/notation-go/verifier"
	"github.com/notaryproject/notation-go/verifier/truststore"
	"github.com/opencontainers/go-digest"
	ocispec "github.com/opencontainers/image-spec/specs-go/v1"
	. "vh/kit"
)

func main() {
	now := time.Now()
	chain := NewChain("probe", 2, now.Add(-48*time.Hour), now.Add(48*time.Hour))
	desc := ocispec.Descriptor{MediaType: "application/vnd.oci.image.manifest.v1+json", Digest: digest.Digest(strings.TrimPrefix(TestRef, TestScope+"@")), Size: 528}
	store := NewMockStore()
	store.Put(truststore.TypeCA, "s", chain[1].C)
	for _, tc := range []struct {
		name  string
		attrs []signature.Attribute
		fmt   string
	}{
		{"cose int critical", []signature.Attribute{{Key: int64(1000), Critical: true, Value: "x"}}, MtCOSE},
		{"cose str critical", []signature.Attribute{{Key: "foo", Critical: true, Value: "x"}}, MtCOSE},
		{"cose str noncritical", []signature.Attribute{{Key: "foo", Critical: false, Value: "x"}}, MtCOSE},
		{"cose int noncritical", []signature.Attribute{{Key: int64(1000), Critical: false, Value: "x"}}, MtCOSE},
		{"jws str critical", []signature.Attribute{{Key: "foo", Critical: true, Value: "x"}}, MtJWS},
		{"jws str noncritical", []signature.Attribute{{Key: "foo", Critical: false, Value: "x"}}, MtJWS},
	} {
		env, err := SignEnvelope(EnvSpec{Format: tc.fmt, Chain: chain, Payload: PayloadFor(desc), ExtAttrs: tc.attrs})
		if err != nil {
			fmt.Println(tc.name, "SIGN ERROR", err)
			continue
		}
		c, err := CoreVerify(tc.fmt, env)
		if err != nil {
			fmt.Println(tc.name, "CORE VERIFY ERROR", err)
			continue
		}
		fmt.Printf("%s: ext=%+v\n", tc.name, c.SignerInfo.SignedAttributes.ExtendedAttributes)
		script, _ := NewRevScript(nil, nil)
		_ = script
		v, err := verifier.NewVerifierWithOptions(store, verifier.VerifierOptions{OCITrustPolicy: OCIPolicy("strict", nil, []string{"ca:s"}, []string{"*"}, "")})
		if err != nil {
			panic(err)
		}
		_, err = v.Verify(context.Background(), desc, env, notation.VerifierVerifyOptions{ArtifactReference: TestRef, SignatureMediaType: tc.fmt})
		fmt.Println("   verify:", err)
	}
}
