package main

// Concurrency family of C20 (HOWTO lesson 7): ONE plugin.CLIManager on one plugin root, in
// one process, used by K goroutines at the same time. Every goroutine owns one plugin name
// and runs its own histories of Install / Uninstall on it (own versions, own file contents),
// observing after every operation the directory of its plugin, List (restricted to its name)
// and Get+GetMetadata of its plugin; two more goroutines keep asking Get+GetMetadata and List
// for a plugin installed before the others start. Every history is emitted as an ordinary
// case (initial root empty): what the manager did for one name must be what the model does
// for that history alone. The context carries a logger that yields the processor on every
// call. The family runs in a re-executed child process: a fatal runtime error or a timeout
// is recorded as a violation.

import (
	"bufio"
	"bytes"
	"context"
	"encoding/json"
	"errors"
	"fmt"
	"os"
	"os/exec"
	"path/filepath"
	"runtime"
	"strconv"
	"strings"
	"sync"
	"sync/atomic"
	"time"

	. "vh/kit"

	"github.com/notaryproject/notation-go/dir"
	nlog "github.com/notaryproject/notation-go/log"
	"github.com/notaryproject/notation-go/plugin"
	fwplugin "github.com/notaryproject/notation-plugin-framework-go/plugin"
)

// yieldLogger yields the processor on every call; with nap set, every fourth call sleeps long
// enough for another goroutine to run a whole plugin call inside the window.
type yieldLogger struct{ nap bool }

var logCalls int64

func (l yieldLogger) y() {
	runtime.Gosched()
	if l.nap && atomic.AddInt64(&logCalls, 1)%4 == 0 {
		time.Sleep(1500 * time.Microsecond)
	}
}
func (l yieldLogger) Debug(args ...interface{})          { l.y() }
func (l yieldLogger) Debugf(f string, a ...interface{})  { l.y() }
func (l yieldLogger) Debugln(args ...interface{})        { l.y() }
func (l yieldLogger) Info(args ...interface{})           { l.y() }
func (l yieldLogger) Infof(f string, a ...interface{})   { l.y() }
func (l yieldLogger) Infoln(args ...interface{})         { l.y() }
func (l yieldLogger) Warn(args ...interface{})           { l.y() }
func (l yieldLogger) Warnf(f string, a ...interface{})   { l.y() }
func (l yieldLogger) Warnln(args ...interface{})         { l.y() }
func (l yieldLogger) Error(args ...interface{})          { l.y() }
func (l yieldLogger) Errorf(f string, a ...interface{})  { l.y() }
func (l yieldLogger) Errorln(args ...interface{})        { l.y() }

func concSize(a *Args) (k, h int) {
	if a.Tier == "thorough" {
		return 12, 120
	}
	return 8, 40
}

// concSpecs: the histories of goroutine g (plugin name p<g>); versions and contents are its own.
func concSpecs(a *Args) [][]histSpec {
	K, H := concSize(a)
	rng := NewRng(a.Seed).Fork(77)
	out := make([][]histSpec, K)
	for g := 0; g < K; g++ {
		name := fmt.Sprintf("p%d", g)
		bn := "notation-" + name
		for j := 0; j < H; j++ {
			r := rng.Fork(uint64(g*100000 + j))
			b := newHB("concurrent")
			salt := g*1000 + j
			ver := func(minor int, suffix string) string { return fmt.Sprintf("%d.%d.%d%s", g+1, minor, j, suffix) }
			lo, mid, hi := ver(1, "-beta.2"), ver(1, "-beta.11"), ver(2, "")
			src := func(v string, k int) srcSpec {
				switch (k + j + g) % 4 {
				case 0:
					return fileSrc(bn, 0o755, b.okSalt(name, v, salt))
				case 1:
					return dirSrc("pkg", ef("LICENSE", 0o644, b.data("lic-"+name, salt)), ef(bn, 0o755, b.okSalt(name, v, salt)),
						ef(fmt.Sprintf("lib%d.so", k), 0o755, b.data("lib-"+name, salt+k)), ed("docs", fileSpec{"x.md", 0o644, b.data("doc", salt)}))
				case 2:
					return dirSrc("pkg", ef(bn, 0o644, b.okSalt(name, v, salt)), ef("zz.txt", 0o600, b.data("zz-"+name, salt+k)))
				}
				return fileSrc(bn, 0o700, b.okSalt(name, v, salt+1))
			}
			switch r.Intn(5) {
			case 0:
				b.install(src(lo, 0), false)
				b.install(src(hi, 1), false)
				b.install(src(mid, 2), false) // refused against the latest
				b.install(src(hi+"+b."+strconv.Itoa(j), 3), false) // equal
				b.install(src(lo, 4), true)
				b.install(src(mid, 5), false)
			case 1:
				b.install(src(hi, 0), false)
				b.uninstall(name)
				b.install(src(lo, 1), false)
				b.install(src(mid, 2), false)
				b.uninstall(name)
				b.uninstall(name)
			case 2:
				b.install(src(mid, 0), false)
				b.install(src(lo, 1), false)
				b.install(fileSrc(bn, 0o755, b.okSalt("p"+strconv.Itoa((g+1)%K), hi, salt)), false) // answers with a neighbour's name: refused
				b.install(src(hi, 2), false)
				b.install(src(mid, 3), false)
				b.install(src(mid, 4), true)
			case 3:
				b.install(src(lo, 0), false)
				b.install(fileSrc(bn, 0o755, b.malformed("nodesc", name, hi)), true) // refused
				b.install(src("latest", 1), true)
				b.install(src(hi, 2), false) // version error
				b.install(src(hi, 3), true)
				b.uninstall(name)
			default:
				b.install(src(mid, 0), false)
				b.install(src(mid, 1), false) // equal
				b.install(src(hi, 2), false)
				b.uninstall("p" + strconv.Itoa(K+g)) // nobody's plugin
				b.install(src(lo, 3), false)
				b.install(src(lo, 4), true)
			}
			out[g] = append(out[g], b.h)
		}
	}
	return out
}

type concLine struct {
	G       int      `json:"g"`
	J       int      `json:"j"`
	Obs     *caseObs `json:"o,omitempty"`
	Busy    bool     `json:"busy,omitempty"`
	Anomaly string   `json:"anomaly,omitempty"`
	Calls   int64    `json:"calls,omitempty"`
	Reads   int64    `json:"reads,omitempty"`
}

func runConcChild(a *Args, scratch string) error {
	specs := concSpecs(a)
	K := len(specs)
	root := filepath.Join(scratch, "plugins")
	if err := os.MkdirAll(root, 0o755); err != nil {
		return err
	}
	mgr := plugin.NewCLIManager(dir.NewSysFS(root))
	ctx := nlog.WithLogger(context.Background(), yieldLogger{nap: true})
	fast := nlog.WithLogger(context.Background(), yieldLogger{})

	// phase 1 (sequential): contents checked, every source written before any goroutine forks
	envs := make([][]*histEnv, K)
	for g := range specs {
		for j := range specs[g] {
			h := &specs[g][j]
			e := &histEnv{base: filepath.Join(scratch, fmt.Sprintf("g%d_%d", g, j)), root: root, rev: map[string]int{}, mgr: mgr,
				only: fmt.Sprintf("p%d", g), ctx: ctx, paths: []string{}}
			if err := os.MkdirAll(e.base, 0o755); err != nil {
				return err
			}
			for i, c := range h.Table {
				checkTruth(scratch, c)
				b := contentBytes(c)
				e.content = append(e.content, b)
				if _, dup := e.rev[string(b)]; !dup {
					e.rev[string(b)] = i + 1
				}
			}
			for _, op := range h.Ops {
				if op.Op == "install" {
					e.paths = append(e.paths, e.materialise(op.Src))
				}
			}
			envs[g] = append(envs[g], e)
		}
	}
	// the plugin the readers ask for
	stable := contentSpec{Kind: "ok", Name: "stable", Version: "3.1.4-rc.1+conc"}
	sp := filepath.Join(scratch, "stable-src", "notation-stable")
	os.MkdirAll(filepath.Dir(sp), 0o755)
	writeFileMode(sp, contentBytes(stable), 0o755)
	if _, _, err := mgr.Install(ctx, plugin.CLIInstallOptions{PluginPath: sp}); err != nil {
		return fmt.Errorf("installing the stable plugin: %v", err)
	}

	out := bufio.NewWriterSize(os.Stdout, 1<<20)
	enc := json.NewEncoder(out)
	var mu sync.Mutex
	emit := func(l concLine) {
		mu.Lock()
		enc.Encode(l)
		mu.Unlock()
	}
	var calls, reads int64
	var done int32
	burst := 1500
	if a.Tier == "thorough" {
		burst = 6000
	}
	var wg, rg sync.WaitGroup
	start := make(chan struct{})
	for g := 0; g < K; g++ {
		wg.Add(1)
		go func(g int) {
			defer wg.Done()
			<-start
			name := fmt.Sprintf("p%d", g)
			// burst: cheap calls (no plugin is executed) on names of this goroutine only, so that
			// calls of different goroutines overlap thousands of times
			nb := int64(0)
			for i := 0; i < burst; i++ {
				own := fmt.Sprintf("p%d-burst-%d", g, i)
				if _, err := mgr.Get(fast, own); err == nil || !errors.Is(err, os.ErrNotExist) || !strings.Contains(err.Error(), "notation-"+own) {
					emit(concLine{G: -1, Anomaly: fmt.Sprintf("Get(%q) of a plugin that does not exist answered %v", own, err)})
					break
				}
				if err := mgr.Uninstall(fast, own); !errors.Is(err, os.ErrNotExist) || !strings.Contains(err.Error(), own) {
					emit(concLine{G: -1, Anomaly: fmt.Sprintf("Uninstall(%q) of a plugin that does not exist answered %v", own, err)})
					break
				}
				missing := filepath.Join(scratch, "no-such-source", own)
				if _, _, err := mgr.Install(fast, plugin.CLIInstallOptions{PluginPath: missing, Overwrite: i%2 == 0}); err == nil || !strings.Contains(err.Error(), own) {
					emit(concLine{G: -1, Anomaly: fmt.Sprintf("Install from the missing path %q answered %v", missing, err)})
					break
				}
				if p, err := mgr.Get(fast, "stable"); err != nil || p == nil {
					emit(concLine{G: -1, Anomaly: fmt.Sprintf("Get(stable) answered %v during the burst", err)})
					break
				}
				nb += 4
				if i%16 == 0 {
					l, err := mgr.List(fast)
					ok := false
					for _, x := range l {
						ok = ok || x == "stable"
					}
					if err != nil || !ok {
						emit(concLine{G: -1, Anomaly: fmt.Sprintf("List answered %v %v during the burst", l, err)})
						break
					}
					nb++
				}
			}
			atomic.AddInt64(&calls, nb)
			for j, e := range envs[g] {
				func() {
					var o caseObs
					defer func() {
						if r := recover(); r != nil {
							o.Panic = fmt.Sprint(r)
						}
						emit(concLine{G: g, J: j, Obs: &o, Busy: e.busy})
					}()
					_ = mgr.Uninstall(ctx, name) // every history starts without the plugin
					e.runOps(scratch, &specs[g][j], &o)
					atomic.AddInt64(&calls, int64(4*len(specs[g][j].Ops)+4))
				}()
			}
		}(g)
	}
	for r := 0; r < 2; r++ {
		rg.Add(1)
		go func(r int) {
			defer rg.Done()
			<-start
			n := 0
			for atomic.LoadInt32(&done) == 0 {
				p, err := mgr.Get(ctx, "stable")
				if err != nil {
					emit(concLine{G: -1, Anomaly: "Get(stable) failed while other plugins were installed: " + err.Error()})
					return
				}
				md, err := p.GetMetadata(ctx, &fwplugin.GetMetadataRequest{})
				if err != nil || md.Name != stable.Name || md.Version != stable.Version {
					emit(concLine{G: -1, Anomaly: fmt.Sprintf("GetMetadata of the untouched plugin 'stable' answered (%v, %v) instead of (%s, %s)", md, err, stable.Name, stable.Version)})
					return
				}
				l, err := mgr.List(ctx)
				found := false
				for _, x := range l {
					found = found || x == "stable"
				}
				if err != nil || !found {
					emit(concLine{G: -1, Anomaly: fmt.Sprintf("List lost the untouched plugin 'stable': %v %v", l, err)})
					return
				}
				n += 3
				atomic.AddInt64(&reads, 3)
				if n%30 == 0 {
					runtime.Gosched()
				}
			}
		}(r)
	}
	close(start)
	wg.Wait()
	atomic.StoreInt32(&done, 1)
	rg.Wait()
	emit(concLine{G: -2, Calls: atomic.LoadInt64(&calls), Reads: atomic.LoadInt64(&reads)})
	return out.Flush()
}

// runConcParent re-executes the driver in "conc" mode and turns what it printed into cases.
func runConcParent(a *Args, w *CaseWriter, base int, emit func(i int, c *caseSpec, o *caseObs)) {
	specs := concSpecs(a)
	K, H := len(specs), len(specs[0])
	anyWanted := false
	for i := 0; i < K*H; i++ {
		anyWanted = anyWanted || w.Want(int64(base+i))
	}
	if !anyWanted {
		return
	}
	ctx, cancel := context.WithTimeout(context.Background(), 240*time.Second)
	defer cancel()
	cmd := exec.CommandContext(ctx, os.Args[0], "--tier", a.Tier, "--seed", strconv.FormatUint(a.Seed, 10), "--out", a.Out,
		"--corpus", a.Corpus, "--repo", a.Repo, "conc")
	var stdout, stderr bytes.Buffer
	cmd.Stdout, cmd.Stderr = &stdout, &stderr
	t0 := time.Now()
	err := cmd.Run()
	w.Set("concurrency_seconds", time.Since(t0).Seconds())
	tail := stderr.String()
	if i := strings.Index(tail, "fatal error"); i >= 0 {
		tail = tail[i:]
	}
	tail = Short(tail, 1500)
	desc := map[string]any{"family": "concurrent", "goroutines": K, "histories_each": H,
		"what": "one CLIManager shared by the goroutines, each installing / uninstalling / getting / listing its own plugin name", "stderr": tail}
	if err != nil {
		what := "the process using one CLIManager from " + strconv.Itoa(K) + " goroutines (different plugin names) died: " + err.Error()
		if ctx.Err() != nil {
			what = "the process using one CLIManager from several goroutines did not finish within 240 s"
		}
		w.ImplViolation(int64(base), what+" | "+Short(tail, 300), desc, "")
		w.Count("concurrency", "child-failed")
		return
	}
	dropped, got := 0, 0
	dec := json.NewDecoder(&stdout)
	for dec.More() {
		var l concLine
		if err := dec.Decode(&l); err != nil {
			w.ImplViolation(int64(base), "unreadable output of the concurrency child: "+err.Error(), desc, "")
			return
		}
		switch {
		case l.G == -1:
			w.ImplViolation(int64(base), l.Anomaly, desc, "")
			w.Count("concurrency", "reader-anomaly")
		case l.G == -2:
			w.Set("concurrency_calls", map[string]any{"goroutines": K, "writer_calls": l.Calls, "reader_calls": l.Reads})
		default:
			id := base + l.G*H + l.J
			if !w.Want(int64(id)) {
				continue
			}
			if l.Busy {
				dropped++ // ETXTBSY inside Install: a property of fork/exec, not of the manager
				continue
			}
			got++
			h := specs[l.G][l.J]
			emit(id, &caseSpec{Hist: &h}, l.Obs)
		}
	}
	w.Count("concurrency", "histories-judged:"+strconv.Itoa(got))
	if dropped > 0 {
		w.Count("concurrency", "histories-dropped-etxtbsy:"+strconv.Itoa(dropped))
	}
	if w.Only < 0 && got+dropped != K*H {
		w.ImplViolation(int64(base), fmt.Sprintf("the concurrency child reported %d of %d histories", got+dropped, K*H), desc, "")
	}
}
