package main

// C20 driver: runs the real plugin.CLIManager (Install / Uninstall / List / Get
// + GetMetadata) on histories of operations over stub plugins (small /bin/sh
// scripts whose get-plugin-metadata answer is written in the script), and the
// real internal/semver.ComparePluginVersion on pairs of version strings, and
// prints (input, observation) cases for C20_Model.
//
// Histories are executed by worker processes (the driver re-executes itself):
// inside one process everything is sequential, so that no fork happens while a
// freshly copied executable is still open for writing (ETXTBSY).

import (
	"bufio"
	"context"
	"encoding/json"
	"errors"
	"fmt"
	"io/fs"
	"os"
	"os/exec"
	"path/filepath"
	"reflect"
	"runtime"
	"sort"
	"strconv"
	"strings"
	"time"

	. "vh/kit"

	"github.com/notaryproject/notation-go/dir"
	"github.com/notaryproject/notation-go/plugin"
	"github.com/notaryproject/notation-go/verifbridge"
	fwplugin "github.com/notaryproject/notation-plugin-framework-go/plugin"
)

func main() { Main("c20", runC20) }

// ---------- specifications of cases (pure data, generated deterministically) ----------

type fileSpec struct {
	Name string `json:"n"`
	Mode uint32 `json:"m"`
	Cid  int    `json:"c"`
}

type entrySpec struct {
	Kind string     `json:"k"` // f | d | l
	File fileSpec   `json:"f,omitempty"`
	Name string     `json:"n,omitempty"`
	Sub  []fileSpec `json:"sub,omitempty"`
}

type srcSpec struct {
	// none | missing | special | file | dir  (outside the plugin root), and, inside it (histories with At set):
	// indir    the directory <root>/Name (Slash: with a trailing separator; ViaLink: a symbolic link to it, outside
	//          the root, given with a trailing separator)
	// infile   the file <root>/Name/File.Name
	// linkdir  a symbolic link (outside the root) to the directory <root>/Name - or, Name empty, to a directory
	//          outside the root holding a proper plugin - given WITHOUT trailing separator
	// linkfile a symbolic link named Link, outside the root, to <root>/Name/File.Name
	Kind    string      `json:"k"`
	Link    string      `json:"link,omitempty"`
	Name    string      `json:"n,omitempty"`
	File    fileSpec    `json:"f,omitempty"`
	Entries []entrySpec `json:"es,omitempty"`
	// path forms (the model does not see them: the result must not depend on them)
	Slash   bool `json:"slash,omitempty"`   // directory path given with a trailing separator
	ViaLink bool `json:"vialink,omitempty"` // file path is a symbolic link (named File.Name) to the regular file
}

type opSpec struct {
	Op        string  `json:"op"` // install | uninstall
	Src       srcSpec `json:"src,omitempty"`
	Overwrite bool    `json:"ow,omitempty"`
	Name      string  `json:"name,omitempty"`
	// Expect (near-miss family only): the outcome fixed by the property text for this step, judged on the
	// Go side as well, so that a failing input is reported even when the Coq side cannot be built
	// (e.g. the SemVer regular expression vanished from /repo and Generated.v cannot be produced).
	//   "refuse:<class>"          the installation must be refused with that error class, return no metadata
	//                             and leave the whole plugin root (tree, List, answers) as it was
	//   "ok:<new>|<existing>"     it must succeed, reporting version <new>, and <existing> ("-" = none)
	Expect string `json:"expect,omitempty"`
}

// contentSpec describes the bytes of one file content and what it answers.
type contentSpec struct {
	Kind    string `json:"k"` // ok | malformed | fail
	Variant string `json:"v"` // ok: "" dupname multicontract ; malformed: nodesc nourl nocaps badcontract notjson emptyver emptyname ; fail: exit1 errjson text
	Name    string `json:"name,omitempty"`
	Version string `json:"ver,omitempty"`
	Salt    int    `json:"s,omitempty"`
}

type dirSpec struct {
	Name  string     `json:"n"`
	Files []fileSpec `json:"fs"`
}

type histSpec struct {
	At     bool          `json:"at,omitempty"` // the installations name the place of their source (IHistAt)
	Family string        `json:"family"`
	Table  []contentSpec `json:"table"` // cid = index+1
	Init   []dirSpec     `json:"init,omitempty"`
	Ops    []opSpec      `json:"ops"`
}

type cmpSpec struct {
	V string `json:"v"`
	W string `json:"w"`
	// Expect "Err": one side is a near-miss string (not a SemVer 2.0.0 version): the comparison must fail
	Expect string `json:"expect,omitempty"`
}

type caseSpec struct {
	Hist *histSpec `json:"hist,omitempty"`
	Cmp  *cmpSpec  `json:"cmp,omitempty"`
}

// ---------- observations ----------

type ansObs struct {
	Name string `json:"n"`
	Kind string `json:"k"` // AOk AInvalid AMisnamed AFail AAbsent
	MN   string `json:"mn,omitempty"`
	MV   string `json:"mv,omitempty"`
}

type viewObs struct {
	Tree    []dirSpec `json:"tree"`
	List    []string  `json:"list"`
	ListErr string    `json:"list_err,omitempty"`
	Answers []ansObs  `json:"answers"`
}

type stepObs struct {
	Op       string     `json:"op"`
	Existing *[2]string `json:"existing,omitempty"`
	New      *[2]string `json:"new,omitempty"`
	Err      string     `json:"err"` // "" = success; install: constructor of ierr; uninstall: of uerr
	ErrText  string     `json:"err_text,omitempty"`
	View     viewObs    `json:"view"`
}

type caseObs struct {
	Init  *viewObs  `json:"init,omitempty"`
	Steps []stepObs `json:"steps,omitempty"`
	Cmp   string    `json:"cmp,omitempty"` // Lt Eq Gt Err
	Panic string    `json:"panic,omitempty"`
}

// ---------- contents ----------

type metaJSON struct {
	Name                      string   `json:"name"`
	Description               string   `json:"description"`
	Version                   string   `json:"version"`
	URL                       string   `json:"url"`
	SupportedContractVersions []string `json:"supportedContractVersions"`
	Capabilities              []string `json:"capabilities"`
}

// specMeta: the six metadata fields a content of kind "ok" is specified to print (checkTruth runs every
// such content directly and compares the decoded output with this, field by field).
func specMeta(c contentSpec) metaJSON {
	m := metaJSON{Name: c.Name, Description: "stub plugin", Version: c.Version, URL: "https://example.test/p",
		SupportedContractVersions: []string{"1.0"}, Capabilities: []string{"SIGNATURE_GENERATOR.RAW"}}
	if c.Kind == "ok" && c.Variant == "multicontract" { // the supported contract version is not the first of the list
		m.SupportedContractVersions = []string{"2.0", "1.0", "0.9"}
	}
	return m
}

func contentBytes(c contentSpec) []byte {
	m := specMeta(c)
	salt := ""
	if c.Salt != 0 {
		salt = fmt.Sprintf("# build %d\n", c.Salt)
	}
	switch c.Kind {
	case "ok":
		if c.Variant == "dupname" { // duplicate JSON member: the last one counts
			return []byte("#!/bin/sh\n" + salt + "printf '%s\\n' '{\"name\":\"shadowed\",\"name\":\"" + c.Name + "\",\"description\":\"stub plugin\",\"version\":\"0.0.1\",\"version\":\"" + c.Version + "\",\"url\":\"https://example.test/p\",\"supportedContractVersions\":[\"1.0\"],\"capabilities\":[\"SIGNATURE_GENERATOR.RAW\"]}'\n")
		}
	case "malformed":
		switch c.Variant {
		case "null":
			return []byte("#!/bin/sh\n" + salt + "echo null\n")
		case "emptyobj":
			return []byte("#!/bin/sh\n" + salt + "echo '{}'\n")
		case "emptyout":
			return []byte("#!/bin/sh\n" + salt + "exit 0\n")
		case "numver":
			return []byte("#!/bin/sh\n" + salt + "printf '%s\\n' '{\"name\":\"" + c.Name + "\",\"description\":\"stub plugin\",\"version\":1,\"url\":\"https://example.test/p\",\"supportedContractVersions\":[\"1.0\"],\"capabilities\":[\"SIGNATURE_GENERATOR.RAW\"]}'\n")
		case "nover":
			return []byte("#!/bin/sh\n" + salt + "printf '%s\\n' '{\"name\":\"" + c.Name + "\",\"description\":\"stub plugin\",\"url\":\"https://example.test/p\",\"supportedContractVersions\":[\"1.0\"],\"capabilities\":[\"SIGNATURE_GENERATOR.RAW\"]}'\n")
		case "emptycaps":
			m.Capabilities = []string{}
		case "nocontract":
			m.SupportedContractVersions = []string{}
		case "nodesc":
			m.Description = ""
		case "nourl": // each check of plugin.validate is decisive on its own
			m.URL = ""
		case "nocaps":
			m.Capabilities = nil
		case "badcontract":
			m.SupportedContractVersions = []string{"2.0"}
		case "emptyver":
			m.Version = ""
		case "emptyname":
			m.Name = ""
		case "notjson":
			return []byte("#!/bin/sh\n" + salt + "echo 'this is not json'\n")
		}
	case "fail":
		switch c.Variant {
		case "exit1":
			return []byte("#!/bin/sh\n" + salt + "exit 1\n")
		case "empty": // zero-length file
			return []byte{}
		case "errjson":
			return []byte("#!/bin/sh\n" + salt + "echo '{\"errorCode\":\"ERROR\",\"errorMessage\":\"stub failure\"}' >&2\nexit 1\n")
		default: // text
			return []byte(fmt.Sprintf("plain data file %s %d\n", c.Name, c.Salt))
		}
	}
	b, err := json.Marshal(m)
	if err != nil {
		panic(err)
	}
	if strings.ContainsAny(string(b), "'") {
		panic("c20: quote in stub metadata")
	}
	return []byte("#!/bin/sh\n" + salt + "printf '%s\\n' '" + string(b) + "'\n")
}

func containsStr(l []string, x string) bool {
	for _, y := range l {
		if y == x {
			return true
		}
	}
	return false
}

// truth: what a content answers, established by running it directly (not through notation-go).
var truthCache = map[string]string{}

func checkTruth(scratch string, c contentSpec) {
	if c.Kind != "ok" {
		return
	}
	b := contentBytes(c)
	if _, ok := truthCache[string(b)]; ok {
		return
	}
	p := filepath.Join(scratch, "truth-probe")
	if err := os.WriteFile(p, b, 0o700); err != nil {
		panic(err)
	}
	out, err := exec.Command(p, "get-plugin-metadata").Output()
	os.Remove(p)
	if err != nil {
		panic(fmt.Sprintf("c20: stub does not run: %v", err))
	}
	var m metaJSON
	if err := json.Unmarshal(out, &m); err != nil || !reflect.DeepEqual(m, specMeta(c)) || m.Name == "" || m.Version == "" ||
		m.Description == "" || m.URL == "" || len(m.Capabilities) == 0 || !containsStr(m.SupportedContractVersions, fwplugin.ContractVersion) {
		panic(fmt.Sprintf("c20: stub answer differs from its specification: %s", out))
	}
	truthCache[string(b)] = "ok"
}

// rawTruth: what a content PRINTS when it is run with get-plugin-metadata, established by running it
// directly (not through notation-go) and decoding its output with encoding/json into the fields of a
// metadata response. The Coq model of plugin.validate decides whether that is valid metadata.
type rawAns struct {
	Kind string // RJson RNotJson RFail
	M    metaJSON
}

var rawCache = map[string]rawAns{}
var rawScratch string
var rawSpent time.Duration

func rawTruth(c contentSpec) rawAns {
	if fwplugin.ContractVersion != "1.0" {
		panic("c20: plugin.ContractVersion is " + fwplugin.ContractVersion + ", the model says 1.0")
	}
	if c.Kind == "ok" {
		// run and compared field by field by checkTruth in the process that executed the history
		return rawAns{Kind: "RJson", M: specMeta(c)}
	}
	b := contentBytes(c)
	if r, ok := rawCache[string(b)]; ok {
		return r
	}
	t0 := time.Now()
	defer func() { rawSpent += time.Since(t0) }()
	p := filepath.Join(rawScratch, "raw-probe")
	if err := os.WriteFile(p, b, 0o700); err != nil {
		panic(err)
	}
	defer os.Remove(p)
	var r rawAns
	out, err := exec.Command(p, "get-plugin-metadata").Output()
	for try := 0; err != nil && strings.Contains(err.Error(), "text file busy") && try < 100; try++ {
		time.Sleep(2 * time.Millisecond)
		out, err = exec.Command(p, "get-plugin-metadata").Output()
	}
	switch {
	case err != nil:
		r.Kind = "RFail"
	default:
		var m metaJSON
		if json.Unmarshal(out, &m) != nil {
			r.Kind = "RNotJson"
		} else {
			r.Kind, r.M = "RJson", m
		}
	}
	rawCache[string(b)] = r
	return r
}

// ---------- execution of one history on the real code ----------

func writeFileMode(p string, b []byte, mode uint32) {
	if err := os.WriteFile(p, b, 0o600); err != nil {
		panic(err)
	}
	if err := os.Chmod(p, fs.FileMode(mode)); err != nil {
		panic(err)
	}
}

type histEnv struct {
	base    string
	root    string
	content [][]byte       // by cid-1
	rev     map[string]int // bytes -> cid
	mgr     *plugin.CLIManager
	nsrc    int
	// concurrency family: the view is restricted to one plugin name, the context carries a
	// yielding logger, the sources are materialised beforehand
	only  string
	ctx   context.Context
	paths []string
	busy  bool // an exec hit ETXTBSY (a fork of another goroutine held the freshly written file)
}

func (e *histEnv) context() context.Context {
	if e.ctx != nil {
		return e.ctx
	}
	return context.Background()
}

func (e *histEnv) bytesOf(cid int) []byte {
	if cid >= 1 && cid <= len(e.content) {
		return e.content[cid-1]
	}
	return []byte(fmt.Sprintf("unknown content %d\n", cid))
}

func (e *histEnv) materialise(s srcSpec) string {
	e.nsrc++
	d := filepath.Join(e.base, fmt.Sprintf("src%d", e.nsrc))
	if err := os.MkdirAll(d, 0o755); err != nil {
		panic(err)
	}
	switch s.Kind {
	case "none":
		return ""
	case "missing":
		return filepath.Join(d, "does-not-exist")
	case "special":
		p := filepath.Join(d, s.Name)
		if err := os.Symlink("/dev/null", p); err != nil {
			panic(err)
		}
		return p
	case "file":
		p := filepath.Join(d, s.File.Name)
		if s.ViaLink {
			tgt := filepath.Join(d, "real-target.bin")
			writeFileMode(tgt, e.bytesOf(s.File.Cid), s.File.Mode)
			if err := os.Symlink(tgt, p); err != nil {
				panic(err)
			}
			return p
		}
		writeFileMode(p, e.bytesOf(s.File.Cid), s.File.Mode)
		return p
	case "indir":
		p := filepath.Join(e.root, s.Name)
		if s.ViaLink {
			l := filepath.Join(d, "lnk")
			if err := os.Symlink(p, l); err != nil {
				panic(err)
			}
			return l + string(filepath.Separator)
		}
		if s.Slash {
			return p + string(filepath.Separator)
		}
		return p
	case "infile":
		return filepath.Join(e.root, s.Name, s.File.Name)
	case "linkdir":
		tgt := filepath.Join(e.root, s.Name)
		if s.Name == "" {
			tgt = filepath.Join(d, "realdir")
			if err := os.MkdirAll(tgt, 0o755); err != nil {
				panic(err)
			}
			writeFileMode(filepath.Join(tgt, "notation-foo"), e.bytesOf(1), 0o755)
		}
		l := filepath.Join(d, "lnk")
		if err := os.Symlink(tgt, l); err != nil {
			panic(err)
		}
		return l
	case "linkfile":
		l := filepath.Join(d, s.Link)
		if err := os.Symlink(filepath.Join(e.root, s.Name, s.File.Name), l); err != nil {
			panic(err)
		}
		return l
	case "dir":
		p := filepath.Join(d, s.Name)
		if err := os.MkdirAll(p, 0o755); err != nil {
			panic(err)
		}
		for _, en := range s.Entries {
			switch en.Kind {
			case "f":
				writeFileMode(filepath.Join(p, en.File.Name), e.bytesOf(en.File.Cid), en.File.Mode)
			case "d":
				sd := filepath.Join(p, en.Name)
				if err := os.MkdirAll(sd, 0o755); err != nil {
					panic(err)
				}
				for _, f := range en.Sub {
					writeFileMode(filepath.Join(sd, f.Name), e.bytesOf(f.Cid), f.Mode)
				}
			case "l":
				// a link to an executable stub outside the directory (must be ignored)
				tgt := filepath.Join(d, "link-target")
				if _, err := os.Lstat(tgt); err != nil {
					writeFileMode(tgt, e.bytesOf(1), 0o755)
				}
				if err := os.Symlink(tgt, filepath.Join(p, en.Name)); err != nil {
					panic(err)
				}
			}
		}
		if s.Slash {
			return p + string(filepath.Separator)
		}
		return p
	}
	panic("c20: source kind " + s.Kind)
}

func (e *histEnv) snapshot() viewObs {
	v := viewObs{Tree: []dirSpec{}, List: []string{}, Answers: []ansObs{}}
	ents, err := os.ReadDir(e.root)
	if err != nil && !errors.Is(err, os.ErrNotExist) {
		panic(err)
	}
	for _, d := range ents { // ReadDir sorts by name
		if e.only != "" && d.Name() != e.only {
			continue
		}
		ds := dirSpec{Name: d.Name(), Files: []fileSpec{}}
		if !d.IsDir() {
			ds.Files = append(ds.Files, fileSpec{Name: "<not a directory>", Mode: 0, Cid: 997})
			v.Tree = append(v.Tree, ds)
			continue
		}
		fents, err := os.ReadDir(filepath.Join(e.root, d.Name()))
		if err != nil {
			panic(err)
		}
		for _, f := range fents {
			p := filepath.Join(e.root, d.Name(), f.Name())
			info, err := os.Lstat(p)
			if err != nil {
				panic(err)
			}
			if !info.Mode().IsRegular() {
				ds.Files = append(ds.Files, fileSpec{Name: f.Name() + "<not a regular file>", Mode: 0, Cid: 998})
				continue
			}
			b, err := os.ReadFile(p)
			if err != nil {
				panic(err)
			}
			cid, ok := e.rev[string(b)]
			if !ok {
				cid = 999
			}
			ds.Files = append(ds.Files, fileSpec{Name: f.Name(), Mode: uint32(info.Mode() & 0o7777), Cid: cid})
		}
		v.Tree = append(v.Tree, ds)
	}
	ctx := e.context()
	l, err := e.mgr.List(ctx)
	if err != nil {
		v.ListErr = err.Error()
		v.List = []string{"<List failed>"}
	} else if l != nil {
		v.List = l
	}
	if e.only != "" && err == nil {
		v.List = []string{}
		for _, n := range l {
			if n == e.only {
				v.List = append(v.List, n)
			}
		}
	}
	for _, d := range v.Tree {
		a := ansObs{Name: d.Name}
		p, err := e.mgr.Get(ctx, d.Name)
		if err != nil {
			a.Kind = "AAbsent"
		} else {
			md, err := p.GetMetadata(ctx, &fwplugin.GetMetadataRequest{})
			for try := 0; e.only != "" && err != nil && strings.Contains(err.Error(), "text file busy") && try < 50; try++ {
				// ETXTBSY: a child forked by another goroutine still holds the descriptor our copy wrote through
				time.Sleep(time.Millisecond)
				md, err = p.GetMetadata(ctx, &fwplugin.GetMetadataRequest{})
			}
			var mal *plugin.PluginMalformedError
			switch {
			case err == nil:
				a.Kind, a.MN, a.MV = "AOk", md.Name, md.Version
			case strings.Contains(err.Error(), "plugin executable file name must be"):
				a.Kind = "AMisnamed"
			case errors.As(err, &mal):
				a.Kind = "AInvalid"
			default:
				a.Kind = "AFail"
			}
		}
		v.Answers = append(v.Answers, a)
	}
	return v
}

func installErrClass(err error) string {
	if err == nil {
		return ""
	}
	var dg plugin.PluginDowngradeError
	var eq plugin.InstallEqualVersionError
	msg := err.Error()
	switch {
	case errors.As(err, &dg):
		return "EDowngrade"
	case errors.As(err, &eq):
		return "EEqual"
	case msg == "plugin source path cannot be empty":
		return "EEmptyPath"
	case strings.HasPrefix(msg, "failed to read plugin from input directory: "):
		switch {
		case strings.Contains(msg, "found more than one plugin executable files"):
			return "ESrcTwoExec"
		case strings.Contains(msg, "no plugin executable file was found"):
			return "ESrcNoExec"
		}
		return "ESrcStat"
	case strings.HasPrefix(msg, "failed to read plugin name from input file"):
		return "EFileName"
	case strings.HasPrefix(msg, "failed to check if input file"):
		return "ECheckExec"
	case strings.HasPrefix(msg, "input file ") && strings.HasSuffix(msg, " is not executable"):
		return "ENotExec"
	case strings.HasPrefix(msg, "failed to get metadata of new plugin: "):
		if strings.Contains(msg, "plugin executable file name must be") {
			return "EMisnamed"
		}
		return "EMetaInvalid"
	case strings.HasPrefix(msg, "plugin executable file is either not found"), errors.Is(err, plugin.ErrNotRegularFile):
		return "ENewPlugin"
	case strings.HasPrefix(msg, "failed to check plugin existence"):
		return "EExistCheck"
	case strings.HasPrefix(msg, "failed to get metadata of existing plugin"):
		return "EExistMeta"
	case strings.HasPrefix(msg, "failed to compare plugin versions"):
		return "EVersion"
	case strings.HasPrefix(msg, "failed to install plugin") && strings.HasSuffix(msg, "is the installed plugin"):
		return "ESelf"
	case strings.HasPrefix(msg, "failed to clean up plugin"):
		return "ECleanup"
	case strings.HasPrefix(msg, "failed to copy plugin"), strings.HasPrefix(msg, "failed to get the system path"):
		return "ECopy"
	}
	return "EOther"
}

func uninstallErrClass(err error) string {
	switch {
	case err == nil:
		return ""
	case errors.Is(err, os.ErrNotExist):
		return "UNotExist"
	case strings.HasPrefix(err.Error(), "invalid plugin name"):
		return "UBadName"
	}
	return "UOther"
}

func runHist(scratch string, idx int, h *histSpec) (o caseObs) {
	defer func() {
		if r := recover(); r != nil {
			o.Panic = fmt.Sprint(r)
		}
	}()
	base := filepath.Join(scratch, fmt.Sprintf("h%d", idx))
	if err := os.MkdirAll(base, 0o755); err != nil {
		panic(err)
	}
	defer os.RemoveAll(base)
	e := &histEnv{base: base, root: filepath.Join(base, "plugins"), rev: map[string]int{}}
	for i, c := range h.Table {
		checkTruth(scratch, c)
		b := contentBytes(c)
		e.content = append(e.content, b)
		if _, dup := e.rev[string(b)]; !dup {
			e.rev[string(b)] = i + 1
		}
	}
	for _, d := range h.Init {
		p := filepath.Join(e.root, d.Name)
		if err := os.MkdirAll(p, 0o755); err != nil {
			panic(err)
		}
		for _, f := range d.Files {
			writeFileMode(filepath.Join(p, f.Name), e.bytesOf(f.Cid), f.Mode)
		}
	}
	e.mgr = plugin.NewCLIManager(dir.NewSysFS(e.root))
	e.runOps(scratch, h, &o)
	return o
}

// runOps executes the operations of h on e.mgr and records the observations in o.
func (e *histEnv) runOps(scratch string, h *histSpec, o *caseObs) {
	iv := e.snapshot()
	o.Init = &iv
	ctx := e.context()
	ninst := 0
	for _, op := range h.Ops {
		st := stepObs{Op: op.Op}
		switch op.Op {
		case "install":
			var path string
			if e.paths != nil {
				path = e.paths[ninst]
				ninst++
			} else {
				path = e.materialise(op.Src)
			}
			ex, nw, err := e.mgr.Install(ctx, plugin.CLIInstallOptions{PluginPath: path, Overwrite: op.Overwrite})
			if ex != nil {
				st.Existing = &[2]string{ex.Name, ex.Version}
			}
			if nw != nil {
				st.New = &[2]string{nw.Name, nw.Version}
			}
			st.Err = installErrClass(err)
			if err != nil {
				st.ErrText = Short(strings.ReplaceAll(err.Error(), scratch, "$TMP"), 200)
				if strings.Contains(err.Error(), "text file busy") {
					e.busy = true
				}
			}
		case "uninstall":
			err := e.mgr.Uninstall(ctx, op.Name)
			st.Err = uninstallErrClass(err)
			if err != nil {
				st.ErrText = Short(strings.ReplaceAll(err.Error(), scratch, "$TMP"), 200)
			}
		}
		st.View = e.snapshot()
		o.Steps = append(o.Steps, st)
	}
}

// judgeExpect compares one step with the outcome its opSpec.Expect fixes; "" = as expected.
func judgeExpect(op opSpec, prev *viewObs, st *stepObs) string {
	if op.Expect == "" {
		return ""
	}
	pj, _ := json.Marshal(prev)
	nj, _ := json.Marshal(st.View)
	same := string(pj) == string(nj)
	switch {
	case strings.HasPrefix(op.Expect, "refuse:"):
		cl := strings.TrimPrefix(op.Expect, "refuse:")
		switch {
		case st.Err == "":
			return fmt.Sprintf("installation that must be refused (%s) succeeded: existing=%v new=%v", cl, derefMeta(st.Existing), derefMeta(st.New))
		case !same:
			return fmt.Sprintf("refused installation (%s) changed the plugin root: before %s after %s", st.Err, pj, nj)
		case st.Existing != nil || st.New != nil:
			return fmt.Sprintf("refused installation (%s) returned metadata", st.Err)
		case st.Err != cl:
			return fmt.Sprintf("installation refused with %s (%s) instead of %s", st.Err, st.ErrText, cl)
		}
	case strings.HasPrefix(op.Expect, "ok:"):
		parts := strings.SplitN(strings.TrimPrefix(op.Expect, "ok:"), "|", 2)
		switch {
		case st.Err != "":
			return fmt.Sprintf("installation that must succeed (version %q over %q) was refused: %s (%s)", parts[0], parts[1], st.Err, st.ErrText)
		case st.New == nil || st.New[1] != parts[0]:
			return fmt.Sprintf("successful installation reports new=%v instead of version %q", derefMeta(st.New), parts[0])
		case parts[1] == "-" && st.Existing != nil:
			return fmt.Sprintf("successful installation reports existing=%v instead of none", derefMeta(st.Existing))
		case parts[1] != "-" && (st.Existing == nil || st.Existing[1] != parts[1]):
			return fmt.Sprintf("successful installation reports existing=%v instead of version %q", derefMeta(st.Existing), parts[1])
		}
	}
	return ""
}

func derefMeta(m *[2]string) string {
	if m == nil {
		return "none"
	}
	return fmt.Sprintf("(%q, %q)", m[0], m[1])
}

func runCmp(c *cmpSpec) caseObs {
	r, err := verifbridge.ComparePluginVersion(c.V, c.W)
	switch {
	case err != nil:
		return caseObs{Cmp: "Err"}
	case r < 0:
		return caseObs{Cmp: "Lt"}
	case r > 0:
		return caseObs{Cmp: "Gt"}
	}
	return caseObs{Cmp: "Eq"}
}

// ---------- Gallina printing ----------

func cFile(f fileSpec) string { return CApp("F", CStr(f.Name), CN(int64(f.Mode)), CN(int64(f.Cid))) }

func cFiles(fs []fileSpec) string {
	items := make([]string, len(fs))
	for i, f := range fs {
		items[i] = cFile(f)
	}
	return CList(items)
}

func cSource(s srcSpec) string {
	switch s.Kind {
	case "none":
		return "SNone"
	case "missing":
		return "SMissing"
	case "special":
		return CApp("SSpecial", CStr(s.Name))
	case "file":
		return CApp("SFile", cFile(s.File))
	}
	items := make([]string, len(s.Entries))
	for i, en := range s.Entries {
		switch en.Kind {
		case "f":
			items[i] = CApp("EF", cFile(en.File))
		case "d":
			items[i] = CApp("ED", CStr(en.Name), cFiles(en.Sub))
		default:
			items[i] = CApp("EL", CStr(en.Name))
		}
	}
	return CApp("SDir", CStr(s.Name), CList(items))
}

func cPlace(s srcSpec) string {
	switch s.Kind {
	case "indir":
		return CApp("PInDir", CStr(s.Name))
	case "infile":
		return CApp("PInFile", CStr(s.Name), CStr(s.File.Name))
	case "linkdir":
		return "PLinkDir"
	case "linkfile":
		return CApp("PLinkFile", CStr(s.Link), CStr(s.Name), CStr(s.File.Name))
	}
	return CApp("POut", cSource(s))
}

func cTree(t []dirSpec) string {
	items := make([]string, len(t))
	for i, d := range t {
		items[i] = CPair(CStr(d.Name), cFiles(d.Files))
	}
	return CList(items)
}

func cView(v viewObs) string {
	ans := make([]string, len(v.Answers))
	for i, a := range v.Answers {
		t := a.Kind
		if a.Kind == "AOk" {
			t = CApp("AOk", CStr(a.MN), CStr(a.MV))
		}
		ans[i] = CPair(CStr(a.Name), t)
	}
	return CApp("mk_view", cTree(v.Tree), CStrList(v.List), CList(ans))
}

func cMeta(m *[2]string) string {
	if m == nil {
		return "None"
	}
	return CSome(CPair(CStr(m[0]), CStr(m[1])))
}

func cOptTok(s string) string {
	if s == "" {
		return "None"
	}
	return CSome(s)
}

func cTable(t []contentSpec) string {
	items := make([]string, len(t))
	for i, c := range t {
		r := rawTruth(c)
		v := r.Kind
		if r.Kind == "RJson" {
			v = CApp("RJson", CApp("RM", CStr(r.M.Name), CStr(r.M.Description), CStr(r.M.Version), CStr(r.M.URL),
				CStrList(r.M.SupportedContractVersions), CStrList(r.M.Capabilities)))
		}
		// what the generator meant the content to be must be what it is
		want := map[string]string{"ok": "RJson", "fail": "RFail"}[c.Kind]
		if want != "" && want != r.Kind {
			panic(fmt.Sprintf("c20: content %+v runs as %s", c, r.Kind))
		}
		items[i] = CPair(CN(int64(i+1)), v)
	}
	return CApp("tbl_of", CList(items))
}

func caseTerm(id int64, c *caseSpec, o *caseObs) string {
	if c.Cmp != nil {
		r := "None"
		if o.Cmp != "Err" {
			r = CSome(o.Cmp)
		}
		return CApp("mk_case", CN(id), CApp("ICmp", CStr(c.Cmp.V), CStr(c.Cmp.W)), CApp("OCmp", r))
	}
	h := c.Hist
	ops := make([]string, len(h.Ops))
	for i, op := range h.Ops {
		switch {
		case op.Op == "install" && h.At:
			ops[i] = CApp("AInstall", cPlace(op.Src), CBool(op.Overwrite))
		case op.Op == "install":
			ops[i] = CApp("OInstall", cSource(op.Src), CBool(op.Overwrite))
		case h.At:
			ops[i] = CApp("AUninstall", CStr(op.Name))
		default:
			ops[i] = CApp("OUninstall", CStr(op.Name))
		}
	}
	steps := make([]string, len(o.Steps))
	for i, s := range o.Steps {
		var res string
		if s.Op == "install" {
			res = CApp("RInstall", CApp("mk_ires", cMeta(s.Existing), cMeta(s.New), cOptTok(s.Err)))
		} else {
			res = CApp("RUninstall", cOptTok(s.Err))
		}
		steps[i] = CApp("mk_sobs", res, cView(s.View))
	}
	ctor := "IHist"
	if h.At {
		ctor = "IHistAt"
	}
	in := CApp(ctor, cTable(h.Table), cTree(h.Init), CList(ops))
	ob := CApp("OHist", cView(*o.Init), CList(steps))
	return CApp("mk_case", CN(id), in, ob)
}

// ---------- driver ----------

func execCase(scratch string, idx int, c *caseSpec) caseObs {
	if c.Cmp != nil {
		return runCmp(c.Cmp)
	}
	return runHist(scratch, idx, c.Hist)
}

type workerLine struct {
	Idx int     `json:"i"`
	Obs caseObs `json:"o"`
}

func runC20(a *Args) error {
	specs := generate(a)
	scratch, err := os.MkdirTemp("", "vh-c20-")
	if err != nil {
		return err
	}
	defer os.RemoveAll(scratch)
	rawScratch = scratch

	if len(a.Extra) == 1 && a.Extra[0] == "conc" {
		return runConcChild(a, scratch)
	}
	// worker mode: execute the cases idx % W == k and print the observations
	if len(a.Extra) == 3 && a.Extra[0] == "worker" {
		k, _ := strconv.Atoi(a.Extra[1])
		W, _ := strconv.Atoi(a.Extra[2])
		out := bufio.NewWriterSize(os.Stdout, 1<<20)
		enc := json.NewEncoder(out)
		for i := range specs {
			if i%W != k {
				continue
			}
			if err := enc.Encode(workerLine{Idx: i, Obs: execCase(scratch, i, &specs[i])}); err != nil {
				return err
			}
		}
		return out.Flush()
	}

	prelude := "From NV Require Import Base C20_Semver C20_Model.\nOpen Scope string_scope.\n"
	w := NewCaseWriter(a, "C20", prelude, "case", "run")
	w.ShardSize = 1200
	w.Rule = "histories of 1..6 Install/Uninstall operations on the real plugin.CLIManager (NewCLIManager(dir.NewSysFS(root))) in a temporary plugin root (empty or pre-populated, also with broken plugins: no binary, not executable, malformed / misnamed / failing metadata, invalid version), over stub plugins (foo, bar and odd names: '.', '..', 'a\\b', 'a.b', ...) whose versions come from the semver-ordered set 1.0.0-alpha < 1.0.0-alpha.1 < 1.0.0-alpha.beta < 1.0.0-beta < 1.0.0-beta.2 < 1.0.0-beta.11 < 1.0.0-rc.1 < 1.0.0 < 1.0.1 < 1.1.0 < 2.0.0 < 9.0.0 < 10.0.0, from versions with build metadata and from invalid strings, x overwrite flag x 44 source shapes {empty path, missing path, non-regular file, single executable / non-executable / misnamed file, directory with executable or non-executable candidate, extra files sorting before and after with modes 0600..0777, sub-directories (before, after, holding executables, named like the directory), symbolic links, two / three candidates in every executable pattern (also answering with each other's name), no candidate, invalid / misnamed / failing metadata}; after every operation the returned (existing, new, error class), the whole tree of the root (names, permission bits, contents), List and Get+GetMetadata of every directory are observed. Families: shapes = every source shape on a fresh root, over a lower, a higher and the same version, with and without overwrite; pairs = every ordered pair of the version set as install-then-reinstall (quick: all valid pairs without overwrite, the rest sampled; thorough: all x overwrite); broken / names = broken existing plugins and invalid plugin names; random = random histories with random extra directory entries. Family nearmiss (seed C20-5): every string of 1.1 | 1 | 2.0 | v1.0.0 | 1.0.0.0 | 01.0.0 | 1.0.0- | 1.0.0+ | 1.0 | ' 1.0.0' | '1.0.0 ' | 1.0.0-01 | 1.0.0-a..b | '' as the NEW version (after 1.0.0 / 1.1.0 / 3.0.0, followed by a proper upgrade) and as the INSTALLED version (got in by a fresh installation or present before the manager exists; then installs of 1.0.0 / 3.0.0 / 0.0.1 / itself without overwrite, then with overwrite) of two- to four-step histories over the three source shapes file / directory with extras / directory with a non-executable candidate; the outcome the property fixes for every step (refused with the version error and an untouched root, or accepted over the untouched plugin) is written into the step and judged on the Go side as well as by the Coq oracle, so that a failing input is reported even when Generated.v cannot be produced. The table of every history is printed as what each file content PRINTS (established by running it directly and decoding with encoding/json); the model of plugin.validate decides what is valid metadata. Family places (after 6dc7abe; cases IHistAt, every installation names the place of its source): the plugin's own directory (directly, with a trailing separator, through a symbolic link given with one), its own executable, other / missing files of it, missing directories, the directories and files of OTHER plugins holding an executable named for foo (one, two candidates), a plugin with an invalid version / malformed metadata as its own source, symbolic links to directories without trailing separator, file links into other plugins' directories; x overwrite x foo below / above what the other directories hold; alone and in 6-7 step histories with ordinary installations before and after. Plus ComparePluginVersion (through verifbridge) on every ordered pair of 40 valid fixed versions, invalid strings, and generated version strings (numeric / alphanumeric / hyphen identifiers, leading zeros, 64-bit overflow, build metadata; 5/6 valid). Family concurrent (a re-executed child process; crash or timeout = violation): ONE CLIManager and plugin root shared by 8 (thorough 12) goroutines, each owning one plugin name with its own versions and contents: first a burst of 1500 (6000) rounds of Get / Uninstall / Install-from-a-missing-path / Get(stable) / List that execute no plugin, then 40 (120) histories of 6 Install/Uninstall operations each with List + Get+GetMetadata after every operation, under a context logger that yields on every call and sleeps 1.5 ms on every fourth, while 2 goroutines keep asking Get+GetMetadata+List for a plugin nobody touches; every per-name history (view restricted to that name) is an ordinary case judged by the model on an empty initial root. non-trivial = a history in which an install meets an installed plugin of the same name or uses a directory source with other entries, or a comparison of two valid different versions; distinct = distinct (table, initial root, operations) / (v, w)"
	w.Assumptions = []string{
		"what a plugin file prints for get-plugin-metadata is a function of its content (stub scripts print what is written in them; every content is run directly, its output decoded with encoding/json into the six metadata fields, and that is the table given to the model, which applies plugin.validate itself); plugin.ContractVersion of the framework is 1.0 (checked)",
		"near-miss family: the expected outcome of every step is the one the property text fixes for strings that are not SemVer 2.0.0 versions; it is checked on the Go side (implementation-violation) and independently by the Coq oracle",
		"the source of an installation is not modified concurrently; it may lie inside the plugin root (family places: own directory / executable, other plugins' directories and files, links), except a directory of the root whose only notation-* file is not executable: the documented chmod of a directory source then changes the root before anything is checked (docs/audit/C20.md, C20_at_frame_chmod_refuted) - not generated",
		"the harness runs as a user for whom the files are readable; a file is executable by that user iff its owner-execute bit is set (modes are generated accordingly)",
		"error classes of Install/Uninstall are recognised by errors.As / errors.Is and by the fixed message prefixes of manager.go",
		"concurrency family: goroutines work on different plugin names; a history in which an exec inside Install hit ETXTBSY (a child forked by another goroutine still holding the descriptor of a freshly copied executable: fork/exec, not the manager) is dropped and counted; Get+GetMetadata of the harness retries on ETXTBSY",
		"no I/O failure occurs during the copy step (a crash or failure after the clean-up is outside the property's quantifier)",
	}

	obs := make([]*caseObs, len(specs))
	var want []int
	for i := range specs {
		if w.Want(int64(i)) {
			want = append(want, i)
		}
	}
	W := runtime.NumCPU()
	if W > 8 {
		W = 8
	}
	if len(want) < 40 || W < 2 {
		for _, i := range want {
			o := execCase(scratch, i, &specs[i])
			obs[i] = &o
		}
	} else {
		type res struct {
			lines []workerLine
			err   error
		}
		ch := make(chan res, W)
		for k := 0; k < W; k++ {
			go func(k int) {
				cmd := exec.Command(os.Args[0], "--tier", a.Tier, "--seed", strconv.FormatUint(a.Seed, 10), "--out", a.Out,
					"--corpus", a.Corpus, "--repo", a.Repo, "worker", strconv.Itoa(k), strconv.Itoa(W))
				cmd.Stderr = os.Stderr
				outp, err := cmd.Output()
				r := res{err: err}
				if err == nil {
					dec := json.NewDecoder(strings.NewReader(string(outp)))
					for dec.More() {
						var l workerLine
						if err := dec.Decode(&l); err != nil {
							r.err = err
							break
						}
						r.lines = append(r.lines, l)
					}
				}
				ch <- r
			}(k)
		}
		for k := 0; k < W; k++ {
			r := <-ch
			if r.err != nil {
				return fmt.Errorf("worker failed: %v", r.err)
			}
			for i := range r.lines {
				l := r.lines[i]
				obs[l.Idx] = &l.Obs
			}
		}
	}

	emit := func(i int, c *caseSpec, o *caseObs) {
		desc := map[string]any{"input": c, "observed": o}
		if o.Panic != "" {
			w.ImplViolation(int64(i), "panic or harness failure while executing the history: "+o.Panic, desc, "")
			return
		}
		keyb, _ := json.Marshal(c)
		nontrivial := false
		if c.Hist != nil && len(o.Steps) == len(c.Hist.Ops) {
			prev := o.Init
			for k := range o.Steps {
				if bad := judgeExpect(c.Hist.Ops[k], prev, &o.Steps[k]); bad != "" {
					w.Count("expect", "violated")
					w.ImplViolation(int64(i), fmt.Sprintf("step %d of the history: %s", k+1, bad), desc, "")
					break
				} else if c.Hist.Ops[k].Expect != "" {
					w.Count("expect", "met")
				}
				prev = &o.Steps[k].View
			}
		}
		if c.Cmp != nil && c.Cmp.Expect != "" && o.Cmp != c.Cmp.Expect {
			w.Count("expect", "violated")
			w.ImplViolation(int64(i), fmt.Sprintf("ComparePluginVersion(%q, %q) answered %s: a string that is not a SemVer 2.0.0 version was accepted", c.Cmp.V, c.Cmp.W, o.Cmp), desc, "")
		}
		if c.Cmp != nil {
			nontrivial = o.Cmp != "Err" && c.Cmp.V != c.Cmp.W
			w.Count("kind", "compare")
			w.Count("compare_result", o.Cmp)
		} else {
			w.Count("kind", "history")
			w.Count("family", c.Hist.Family)
			w.Count("ops", strconv.Itoa(len(c.Hist.Ops)))
			prev := o.Init
			for k, s := range o.Steps {
				op := c.Hist.Ops[k]
				if s.Op == "install" {
					cl := s.Err
					if cl == "" {
						cl = "installed"
						if s.Existing != nil {
							cl = "replaced"
						}
					}
					w.Count("install_result", cl)
					w.Count("source", op.Src.Kind)
					if len(prev.Tree) > 0 && (s.Existing != nil || s.Err == "EDowngrade" || s.Err == "EEqual" || s.Err == "EVersion" || s.Err == "EExistMeta") {
						nontrivial = true
					}
					if op.Src.Kind == "dir" && len(op.Src.Entries) > 1 {
						nontrivial = true
					}
					switch op.Src.Kind {
					case "indir", "infile", "linkdir", "linkfile":
						nontrivial = true
						w.Count("place", op.Src.Kind+"/"+cl)
					}
				} else {
					cl := s.Err
					if cl == "" {
						cl = "removed"
					}
					w.Count("uninstall_result", cl)
				}
				prev = &o.Steps[k].View
			}
		}
		w.Add(int64(i), caseTerm(int64(i), c, o), desc, string(keyb), nontrivial)
	}
	for _, i := range want {
		if obs[i] == nil {
			return fmt.Errorf("no observation for case %d", i)
		}
		emit(i, &specs[i], obs[i])
	}
	// the concurrency family (one shared manager, a child process); ids follow the ordinary cases
	runConcParent(a, w, len(specs), emit)
	w.Set("raw_truth", fmt.Sprintf("%d distinct malformed / failing file contents run directly by the driver (%.1fs); every well-formed content is run and compared field by field where its history is executed", len(rawCache), rawSpent.Seconds()))
	return w.Close()
}

// sortEntries puts the entries of a directory source in the order ReadDir returns them.
func sortEntries(es []entrySpec) {
	sort.SliceStable(es, func(i, j int) bool { return entryName(es[i]) < entryName(es[j]) })
}

func entryName(e entrySpec) string {
	if e.Kind == "f" {
		return e.File.Name
	}
	return e.Name
}
