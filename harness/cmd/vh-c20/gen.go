package main

// Generators of the C20 cases. Everything here is pure data derived from
// (tier, seed): the worker processes regenerate exactly the same list.

import (
	"encoding/json"
	"fmt"
	"os"
	"path/filepath"
	"sort"

	. "vh/kit"

	"github.com/notaryproject/notation-go/verifbridge"
)

// the semver-ordered version set of the property (strictly increasing precedence)
var orderedVersions = []string{
	"1.0.0-alpha", "1.0.0-alpha.1", "1.0.0-alpha.beta", "1.0.0-beta", "1.0.0-beta.2", "1.0.0-beta.11",
	"1.0.0-rc.1", "1.0.0", "1.0.1", "1.1.0", "2.0.0", "9.0.0", "10.0.0",
}

// versions with build metadata (same precedence as the version without it)
var buildVersions = []string{"1.0.0+build.1", "1.0.0+build.2", "1.0.0-rc.1+exp.sha.5114f85", "10.0.0+0"}

// strings that are not semantic versions (but are accepted as metadata: not empty)
var invalidVersions = []string{"1.0", "v1.0.0", "01.0.0", "1.0.0-", "1.0.0-01", "latest", "1.0.0+", "1.0.0-a..b", "1.0.0 "}

func allVersions() []string {
	var r []string
	r = append(r, orderedVersions...)
	r = append(r, buildVersions...)
	r = append(r, invalidVersions...)
	return r
}

// ---------- a history under construction ----------

type hb struct {
	h     histSpec
	index map[string]int
}

func newHB(family string) *hb { return &hb{h: histSpec{Family: family}, index: map[string]int{}} }

func (b *hb) cid(c contentSpec) int {
	k, _ := json.Marshal(c)
	if i, ok := b.index[string(k)]; ok {
		return i
	}
	b.h.Table = append(b.h.Table, c)
	b.index[string(k)] = len(b.h.Table)
	return len(b.h.Table)
}

func (b *hb) ok(name, ver string) int { return b.cid(contentSpec{Kind: "ok", Name: name, Version: ver}) }
func (b *hb) okSalt(name, ver string, salt int) int {
	return b.cid(contentSpec{Kind: "ok", Name: name, Version: ver, Salt: salt})
}
func (b *hb) data(tag string, salt int) int {
	return b.cid(contentSpec{Kind: "fail", Variant: "text", Name: tag, Salt: salt})
}
func (b *hb) malformed(variant, name, ver string) int {
	return b.cid(contentSpec{Kind: "malformed", Variant: variant, Name: name, Version: ver})
}
func (b *hb) failing(variant string) int { return b.cid(contentSpec{Kind: "fail", Variant: variant}) }

func (b *hb) install(src srcSpec, ow bool) {
	if src.Kind == "dir" {
		sortEntries(src.Entries)
	}
	b.h.Ops = append(b.h.Ops, opSpec{Op: "install", Src: src, Overwrite: ow})
}
func (b *hb) uninstall(name string) { b.h.Ops = append(b.h.Ops, opSpec{Op: "uninstall", Name: name}) }
func (b *hb) init(name string, files ...fileSpec) {
	sort.SliceStable(files, func(i, j int) bool { return files[i].Name < files[j].Name })
	b.h.Init = append(b.h.Init, dirSpec{Name: name, Files: files})
	sort.SliceStable(b.h.Init, func(i, j int) bool { return b.h.Init[i].Name < b.h.Init[j].Name })
}
func (b *hb) done() caseSpec { h := b.h; return caseSpec{Hist: &h} }

func fileSrc(name string, mode uint32, cid int) srcSpec {
	return srcSpec{Kind: "file", File: fileSpec{Name: name, Mode: mode, Cid: cid}}
}
func ef(name string, mode uint32, cid int) entrySpec {
	return entrySpec{Kind: "f", File: fileSpec{Name: name, Mode: mode, Cid: cid}}
}
func ed(name string, sub ...fileSpec) entrySpec { return entrySpec{Kind: "d", Name: name, Sub: sub} }
func el(name string) entrySpec                  { return entrySpec{Kind: "l", Name: name} }
func dirSrc(base string, es ...entrySpec) srcSpec {
	return srcSpec{Kind: "dir", Name: base, Entries: es}
}

// ---------- source shapes ----------

// shape builds a source for plugin `name` at version `ver`; every shape has a label.
type shape struct {
	label string
	make  func(b *hb, name, ver string) srcSpec
}

func shapes() []shape {
	bin := func(n string) string { return "notation-" + n }
	return []shape{
		{"file-exec", func(b *hb, n, v string) srcSpec { return fileSrc(bin(n), 0o755, b.ok(n, v)) }},
		{"file-exec-0700", func(b *hb, n, v string) srcSpec { return fileSrc(bin(n), 0o700, b.ok(n, v)) }},
		{"file-exec-0777", func(b *hb, n, v string) srcSpec { return fileSrc(bin(n), 0o777, b.ok(n, v)) }},
		{"file-nonexec", func(b *hb, n, v string) srcSpec { return fileSrc(bin(n), 0o644, b.ok(n, v)) }},
		{"file-noprefix", func(b *hb, n, v string) srcSpec { return fileSrc(n, 0o755, b.ok(n, v)) }},
		{"file-emptyname", func(b *hb, n, v string) srcSpec { return fileSrc("notation-", 0o755, b.ok(n, v)) }},
		{"file-misnamed-meta", func(b *hb, n, v string) srcSpec { return fileSrc(bin(n), 0o755, b.ok(n+"x", v)) }},
		{"file-malformed-meta", func(b *hb, n, v string) srcSpec { return fileSrc(bin(n), 0o755, b.malformed("nodesc", n, v)) }},
		{"file-notjson", func(b *hb, n, v string) srcSpec { return fileSrc(bin(n), 0o755, b.malformed("notjson", n, v)) }},
		{"file-emptyver", func(b *hb, n, v string) srcSpec { return fileSrc(bin(n), 0o755, b.malformed("emptyver", n, v)) }},
		{"file-exit1", func(b *hb, n, v string) srcSpec { return fileSrc(bin(n), 0o755, b.failing("exit1")) }},
		{"file-data", func(b *hb, n, v string) srcSpec { return fileSrc(bin(n), 0o755, b.data("blob", 1)) }},
		{"none", func(b *hb, n, v string) srcSpec { return srcSpec{Kind: "none"} }},
		{"missing", func(b *hb, n, v string) srcSpec { return srcSpec{Kind: "missing"} }},
		{"special", func(b *hb, n, v string) srcSpec { return srcSpec{Kind: "special", Name: bin(n)} }},
		{"special-noprefix", func(b *hb, n, v string) srcSpec { return srcSpec{Kind: "special", Name: n} }},
		{"dir-exec-only", func(b *hb, n, v string) srcSpec { return dirSrc("src", ef(bin(n), 0o755, b.ok(n, v))) }},
		{"dir-exec-extras", func(b *hb, n, v string) srcSpec {
			return dirSrc("pkg", ef("LICENSE", 0o644, b.data("lic", 1)), ef("a.txt", 0o666, b.data("a", 2)),
				ef(bin(n), 0o755, b.ok(n, v)), ef("readme.md", 0o600, b.data("r", 3)), ef("zlib.so", 0o777, b.data("z", 4)))
		}},
		{"dir-nonexec-alone", func(b *hb, n, v string) srcSpec { return dirSrc("src", ef(bin(n), 0o644, b.ok(n, v))) }},
		{"dir-nonexec-before", func(b *hb, n, v string) srcSpec {
			return dirSrc("src", ef("LICENSE", 0o644, b.data("lic", 1)), ef(bin(n), 0o600, b.ok(n, v)))
		}},
		{"dir-nonexec-after", func(b *hb, n, v string) srcSpec { // F7 (fixed by 3438892)
			return dirSrc("src", ef(bin(n), 0o644, b.ok(n, v)), ef("zz-notes.txt", 0o644, b.data("n", 1)))
		}},
		{"dir-nonexec-both", func(b *hb, n, v string) srcSpec {
			return dirSrc("src", ef("LICENSE", 0o644, b.data("lic", 1)), ef(bin(n), 0o644, b.ok(n, v)), ef("zlib.so", 0o755, b.data("z", 4)))
		}},
		{"dir-subdirs", func(b *hb, n, v string) srcSpec { // sub-directories before and after (fixed by 6476a8b)
			return dirSrc("src", ed("docs", fileSpec{"index.md", 0o644, b.data("d", 1)}),
				ef(bin(n), 0o755, b.ok(n, v)),
				ed("zz", fileSpec{"deep.so", 0o755, b.data("z", 2)}, fileSpec{bin("other"), 0o755, b.ok("other", "3.0.0")}))
		}},
		{"dir-subdir-holds-exec", func(b *hb, n, v string) srcSpec { // the only executable is in a sub-directory: unusable
			return dirSrc("src", ef("LICENSE", 0o644, b.data("lic", 1)), ed("bin", fileSpec{bin(n), 0o755, b.ok(n, v)}))
		}},
		{"dir-selfdir", func(b *hb, n, v string) srcSpec { // sub-directory named like the source directory (fixed by 9291f82)
			return dirSrc("pkg", ef(bin(n), 0o644, b.ok(n, v)), ed("pkg", fileSpec{bin(n + "2"), 0o755, b.ok(n+"2", v)}))
		}},
		{"dir-selfdir-exec", func(b *hb, n, v string) srcSpec {
			return dirSrc("pkg", ef(bin(n), 0o755, b.ok(n, v)), ed("pkg", fileSpec{bin(n), 0o755, b.okSalt(n, "99.0.0", 7)}))
		}},
		{"dir-two-exec", func(b *hb, n, v string) srcSpec {
			return dirSrc("src", ef(bin(n), 0o755, b.ok(n, v)), ef(bin(n+"2"), 0o755, b.ok(n+"2", v)))
		}},
		{"dir-exec-and-nonexec", func(b *hb, n, v string) srcSpec { // the executable one wins, both are copied
			return dirSrc("src", ef(bin("aaa"), 0o644, b.ok("aaa", "5.0.0")), ef(bin(n), 0o755, b.ok(n, v)), ef(bin("zzz"), 0o644, b.ok("zzz", "6.0.0")))
		}},
		{"dir-two-nonexec", func(b *hb, n, v string) srcSpec {
			return dirSrc("src", ef(bin(n), 0o644, b.ok(n, v)), ef(bin(n+"2"), 0o644, b.ok(n+"2", v)))
		}},
		{"dir-two-nonexec-cross", func(b *hb, n, v string) srcSpec { // the first answers with the name of the second
			return dirSrc("src", ef(bin(n), 0o644, b.ok(n+"2", v)), ef(bin(n+"2"), 0o644, b.ok(n+"2", v)))
		}},
		{"dir-two-nonexec-cross2", func(b *hb, n, v string) srcSpec { // the second answers with the name of the first
			return dirSrc("src", ef(bin(n), 0o644, b.ok(n, v)), ef(bin(n+"2"), 0o644, b.ok(n, v)))
		}},
		{"dir-three-nonexec", func(b *hb, n, v string) srcSpec {
			return dirSrc("src", ef(bin("aaa"), 0o644, b.ok(n, v)), ef(bin(n), 0o644, b.ok(n, v)), ef(bin("zzz"), 0o644, b.ok(n, v)))
		}},
		{"dir-two-exec-cross", func(b *hb, n, v string) srcSpec {
			return dirSrc("src", ef(bin(n), 0o755, b.ok(n+"2", v)), ef(bin(n+"2"), 0o755, b.ok(n, v)))
		}},
		{"dir-three-exec-last", func(b *hb, n, v string) srcSpec { // two executables after a non-executable
			return dirSrc("src", ef(bin("aaa"), 0o644, b.ok("aaa", v)), ef(bin(n), 0o755, b.ok(n, v)), ef(bin(n+"2"), 0o755, b.ok(n+"2", v)))
		}},
		{"dir-no-candidate", func(b *hb, n, v string) srcSpec {
			return dirSrc("src", ef("LICENSE", 0o644, b.data("lic", 1)), ef(n, 0o755, b.ok(n, v)), ef("notation-", 0o755, b.ok(n, v)))
		}},
		{"dir-empty", func(b *hb, n, v string) srcSpec { return dirSrc("src") }},
		{"dir-links", func(b *hb, n, v string) srcSpec { // symbolic links are neither candidates nor copied
			return dirSrc("src", el("notation-aaa"), ef(bin(n), 0o755, b.ok(n, v)), el("zz-link"))
		}},
		{"dir-only-link", func(b *hb, n, v string) srcSpec { return dirSrc("src", el(bin(n)), ef("LICENSE", 0o644, b.data("lic", 1))) }},
		{"dir-misnamed-meta", func(b *hb, n, v string) srcSpec {
			return dirSrc("src", ef("LICENSE", 0o644, b.data("lic", 1)), ef(bin(n), 0o755, b.ok(n+"x", v)))
		}},
		{"dir-nonexec-misnamed-meta", func(b *hb, n, v string) srcSpec { return dirSrc("src", ef(bin(n), 0o644, b.ok("other", v))) }},
		{"dir-malformed-meta", func(b *hb, n, v string) srcSpec {
			return dirSrc("src", ef(bin(n), 0o755, b.malformed("nocaps", n, v)), ef("zlib.so", 0o755, b.data("z", 4)))
		}},
		{"dir-badcontract-meta", func(b *hb, n, v string) srcSpec { return dirSrc("src", ef(bin(n), 0o755, b.malformed("badcontract", n, v))) }},
		{"dir-errjson", func(b *hb, n, v string) srcSpec { return dirSrc("src", ef(bin(n), 0o755, b.failing("errjson"))) }},
		{"dir-nonexec-data", func(b *hb, n, v string) srcSpec { return dirSrc("src", ef(bin(n), 0o644, b.data("blob", 2))) }},
	}
}

// good shapes: usable sources (an installation from them can succeed)
var goodShapes = map[string]bool{"file-exec": true, "file-exec-0700": true, "file-exec-0777": true, "dir-exec-only": true, "dir-exec-extras": true,
	"dir-nonexec-alone": true, "dir-nonexec-before": true, "dir-nonexec-after": true, "dir-nonexec-both": true, "dir-subdirs": true,
	"dir-selfdir": true, "dir-selfdir-exec": true, "dir-exec-and-nonexec": true, "dir-links": true}

// ---------- families ----------

func genPairs(a *Args, rng *Rng) []caseSpec {
	var out []caseSpec
	sh := shapes()
	var good []shape
	for _, s := range sh {
		if goodShapes[s.label] {
			good = append(good, s)
		}
	}
	vs := allVersions()
	nValid := len(orderedVersions) + len(buildVersions)
	for i, v1 := range vs {
		for j, v2 := range vs {
			for _, ow := range []bool{false, true} {
				if a.Tier != "thorough" {
					// quick: every ordered pair of valid versions without overwrite; the pairs with an
					// invalid version and the overwrite pairs are sampled
					valid := i < nValid && j < nValid
					switch {
					case valid && !ow:
					case valid && ow:
						if !rng.Chance(1, 6) {
							continue
						}
					case !ow:
						if !rng.Chance(1, 3) {
							continue
						}
					default:
						if !rng.Chance(1, 12) {
							continue
						}
					}
				}
				b := newHB("pairs")
				name := "foo"
				s1 := good[0]
				s2 := Pick(rng, good)
				b.install(s1.make(b, name, v1), false)
				b.install(s2.make(b, name, v2), ow)
				out = append(out, b.done())
			}
		}
	}
	return out
}

func genShapes(a *Args, rng *Rng) []caseSpec {
	var out []caseSpec
	for _, s := range shapes() {
		for ctx := 0; ctx < 4; ctx++ {
			for _, ow := range []bool{false, true} {
				if ctx == 0 && ow && a.Tier != "thorough" && !goodShapes[s.label] {
					continue
				}
				b := newHB("shapes")
				switch ctx {
				case 0: // fresh root
				case 1: // over a lower version, another plugin installed beside it
					b.init("bar", fileSpec{"notation-bar", 0o755, b.ok("bar", "0.1.0")}, fileSpec{"LICENSE", 0o644, b.data("lic", 9)})
					b.init("foo", fileSpec{"notation-foo", 0o755, b.ok("foo", "1.0.0-rc.1")}, fileSpec{"old.so", 0o644, b.data("old", 9)})
				case 2: // over a higher version
					b.init("foo", fileSpec{"notation-foo", 0o755, b.ok("foo", "2.0.0")}, fileSpec{"old.so", 0o644, b.data("old", 9)})
				case 3: // over the same version with other content
					b.init("foo", fileSpec{"notation-foo", 0o755, b.okSalt("foo", "1.0.0", 5)}, fileSpec{"old.so", 0o644, b.data("old", 9)})
				}
				b.install(s.make(b, "foo", "1.0.0"), ow)
				if goodShapes[s.label] && rng.Chance(1, 2) {
					b.uninstall("foo")
				}
				out = append(out, b.done())
			}
		}
	}
	return out
}

// histories over roots whose existing plugin is broken in some way
func genBroken(a *Args, rng *Rng) []caseSpec {
	var out []caseSpec
	type brk struct {
		label string
		make  func(b *hb)
	}
	brks := []brk{
		{"dir-without-binary", func(b *hb) { b.init("foo", fileSpec{"LICENSE", 0o644, b.data("lic", 1)}) }},
		{"empty-dir", func(b *hb) { b.init("foo") }},
		{"binary-not-executable", func(b *hb) { b.init("foo", fileSpec{"notation-foo", 0o644, b.ok("foo", "1.0.0")}) }},
		{"binary-malformed", func(b *hb) { b.init("foo", fileSpec{"notation-foo", 0o755, b.malformed("nodesc", "foo", "1.0.0")}) }},
		{"binary-misnamed", func(b *hb) { b.init("foo", fileSpec{"notation-foo", 0o755, b.ok("bar", "1.0.0")}) }},
		{"binary-fails", func(b *hb) { b.init("foo", fileSpec{"notation-foo", 0o755, b.failing("exit1")}) }},
		{"binary-invalid-version", func(b *hb) { b.init("foo", fileSpec{"notation-foo", 0o755, b.ok("foo", "latest")}) }},
		{"binary-of-other-name", func(b *hb) { b.init("foo", fileSpec{"notation-bar", 0o755, b.ok("bar", "1.0.0")}) }},
	}
	sh := shapes()
	for _, k := range brks {
		for _, ow := range []bool{false, true} {
			for _, label := range []string{"file-exec", "dir-exec-extras", "dir-nonexec-after"} {
				b := newHB("broken")
				k.make(b)
				for _, s := range sh {
					if s.label == label {
						b.install(s.make(b, "foo", "1.0.0"), ow)
					}
				}
				b.uninstall("foo")
				out = append(out, b.done())
			}
		}
	}
	// plugin names that are not valid directory names, or unusual
	for _, n := range []string{".", "..", "a\\b", "a.b", "x-y", "UPPER", "foo bar"} {
		for _, ow := range []bool{false, true} {
			b := newHB("names")
			b.install(fileSrc("notation-"+n, 0o755, b.ok(n, "1.0.0")), ow)
			b.install(dirSrc("src", ef("notation-"+n, 0o644, b.ok(n, "1.0.1")), ef("zz.txt", 0o644, b.data("z", 1))), ow)
			b.uninstall(n)
			out = append(out, b.done())
		}
	}
	// uninstall of names that must be refused or are absent
	{
		b := newHB("names")
		b.init("foo", fileSpec{"notation-foo", 0o755, b.ok("foo", "1.0.0")})
		for _, n := range []string{"", ".", "..", "foo/..", "bar", "foo"} {
			b.uninstall(n)
		}
		out = append(out, b.done())
	}
	return out
}

func genRandom(a *Args, rng *Rng, n int) []caseSpec {
	var out []caseSpec
	sh := shapes()
	vs := allVersions()
	names := []string{"foo", "bar"}
	for k := 0; k < n; k++ {
		r := rng.Fork(uint64(k))
		b := newHB("random")
		// initial root
		if r.Chance(1, 3) {
			for _, nm := range names {
				if r.Bool() {
					files := []fileSpec{{"notation-" + nm, 0o755, b.ok(nm, Pick(r, vs))}}
					if r.Bool() {
						files = append(files, fileSpec{"lib.so", 0o644, b.data("lib", r.Intn(3))})
					}
					b.init(nm, files...)
				}
			}
		}
		nops := 1 + r.Intn(6)
		for i := 0; i < nops; i++ {
			if r.Chance(1, 5) {
				b.uninstall(Pick(r, []string{"foo", "bar", "foo", "bar", "baz", "", ".."}))
				continue
			}
			var s shape
			if r.Chance(2, 3) {
				for {
					s = Pick(r, sh)
					if goodShapes[s.label] {
						break
					}
				}
			} else {
				s = Pick(r, sh)
			}
			ver := Pick(r, vs)
			if r.Chance(2, 3) {
				ver = Pick(r, orderedVersions)
			}
			src := s.make(b, Pick(r, names), ver)
			if src.Kind == "dir" && r.Chance(1, 3) {
				src = mutateDir(r, b, src)
			}
			b.install(src, r.Chance(1, 4))
		}
		out = append(out, b.done())
	}
	return out
}

// mutateDir adds random extra entries (files with names before / after, sub-directories, links)
func mutateDir(r *Rng, b *hb, s srcSpec) srcSpec {
	have := map[string]bool{}
	for _, e := range s.Entries {
		have[entryName(e)] = true
	}
	extra := []string{"0-first", "AUTHORS", "LICENSE", "lib.so", "m.cfg", "notation", "notation.txt", "notes", "o.dat", "zzz", "~last"}
	modes := []uint32{0o644, 0o600, 0o755, 0o700, 0o666, 0o777, 0o640, 0o750, 0o400, 0o500}
	k := 1 + r.Intn(3)
	for i := 0; i < k; i++ {
		n := Pick(r, extra)
		if have[n] {
			continue
		}
		have[n] = true
		switch r.Intn(6) {
		case 0:
			s.Entries = append(s.Entries, ed(n, fileSpec{"notation-sub", 0o755, b.ok("sub", "1.0.0")}, fileSpec{"x.so", 0o644, b.data("x", 1)}))
		case 1:
			s.Entries = append(s.Entries, el(n))
		default:
			s.Entries = append(s.Entries, ef(n, Pick(r, modes), b.data(n, r.Intn(2))))
		}
	}
	return s
}

// ---------- version strings for the comparison cases ----------

// randIdent: a pre-release / build identifier. kind 0 = valid pre-release identifier,
// 1 = valid build identifier (leading zeros allowed), 2 = possibly invalid.
func randIdent(r *Rng, kind int) string {
	switch r.Intn(8) {
	case 0:
		return "0"
	case 1:
		return fmt.Sprint(1 + r.Intn(12))
	case 2:
		return Pick(r, []string{"alpha", "beta", "rc", "x", "X", "a-b", "-", "--", "z"})
	case 3:
		return Pick(r, []string{"1a", "0a", "00a", "1-", "a1", "a0", "A", "Z9", "0-", "-0"})
	case 4:
		switch kind {
		case 1:
			return Pick(r, []string{"01", "00", "007"}) // fine in build metadata
		case 2:
			return Pick(r, []string{"01", "00", "007", "", "a_b", "\xc3\xa9"}) // invalid
		}
		return Pick(r, []string{"2", "3", "b", "B"})
	case 5:
		return Pick(r, []string{"9", "10", "11", "99", "100", "2", "20"})
	case 6:
		return Pick(r, []string{"18446744073709551615", "18446744073709551616", "99999999999999999999999"})
	}
	return Pick(r, []string{"alpha1", "alpha-1", "beta2", "beta11", "rc-1"})
}

// randVersion: valid (by construction; the regular expression of /repo decides) when
// ok is true, otherwise a version with one or more defects.
func randVersion(r *Rng, ok bool) string {
	num := func() string {
		switch r.Intn(10) {
		case 0:
			return "0"
		case 1:
			return Pick(r, []string{"9", "10", "11", "99", "100"})
		case 2:
			if !ok {
				return Pick(r, []string{"01", "00", "", "a", "-1", "1 "})
			}
			return "1"
		case 3:
			return Pick(r, []string{"4294967296", "18446744073709551616"})
		}
		return fmt.Sprint(r.Intn(4))
	}
	v := num() + "." + num() + "." + num()
	if !ok && r.Chance(1, 6) {
		v = num() + "." + num()
	}
	if !ok && r.Chance(1, 10) {
		v += "." + num()
	}
	kind := 0
	if !ok {
		kind = 2
	}
	if r.Chance(3, 5) {
		v += "-"
		k := 1 + r.Intn(3)
		for i := 0; i < k; i++ {
			if i > 0 {
				v += "."
			}
			v += randIdent(r, kind)
		}
		if !ok && r.Chance(1, 6) {
			v += Pick(r, []string{".", "..x", "_", "!"})
		}
	}
	if r.Chance(1, 4) {
		v += "+"
		k := 1 + r.Intn(2)
		bk := 1
		if !ok {
			bk = 2
		}
		for i := 0; i < k; i++ {
			if i > 0 {
				v += "."
			}
			v += randIdent(r, bk)
		}
		if !ok && r.Chance(1, 5) {
			v += Pick(r, []string{".", "+x", "_"})
		}
	}
	if !ok && r.Chance(1, 8) {
		v = Pick(r, []string{"v", " ", "V", "="}) + v
	}
	return v
}

// verifbridgeValid only organises the fixed list (which pairs are generated); what is
// valid is observed from the implementation for every case and decided in Coq by the regex.
func verifbridgeValid(v string) bool { return verifbridge.SemverIsValid(v) }

func genCompare(a *Args, rng *Rng) []caseSpec {
	var out []caseSpec
	vs := allVersions()
	vs = append(vs, "", "1.0.0-0", "1.0.0-00", "1.0.0--", "1.0.0-0a", "1.0.0-a.b.c", "1.0.0-a.b", "1.0.0-1.2.3", "1.0.0-1.2", "0.0.0", "0.0.1",
		"1.0.0-beta.2.1", "1.0.0-beta.02", "1.0.0-BETA", "1.0.0-beta+11", "1.2.3.4", "1.0.0-\xc3\xa9", "1.0.0\n", "1.0.0-9", "1.0.0-10", "1.0.0-9a", "1.0.0-A", "1.0.0-a")
	// every ordered pair of the valid ones; every invalid one against itself and a few valid ones
	var valid, invalid []string
	seen := map[string]bool{}
	for _, v := range append(vs, nearMissVersions...) {
		if seen[v] {
			continue
		}
		seen[v] = true
		if verifbridgeValid(v) {
			valid = append(valid, v)
		} else {
			invalid = append(invalid, v)
		}
	}
	for _, v := range valid {
		for _, w := range valid {
			out = append(out, caseSpec{Cmp: &cmpSpec{V: v, W: w}})
		}
	}
	for i, v := range invalid {
		out = append(out, caseSpec{Cmp: &cmpSpec{V: v, W: v}})
		for _, w := range []string{"1.0.0", valid[i%len(valid)], invalid[(i+1)%len(invalid)]} {
			out = append(out, caseSpec{Cmp: &cmpSpec{V: v, W: w}}, caseSpec{Cmp: &cmpSpec{V: w, W: v}})
		}
	}
	// the near-miss strings are not versions whatever the implementation says (judged on the Go side too)
	isNear := map[string]bool{}
	for _, v := range nearMissVersions {
		isNear[v] = true
	}
	for i := range out {
		if c := out[i].Cmp; c != nil && (isNear[c.V] || isNear[c.W]) {
			c.Expect = "Err"
		}
	}
	n := 1200
	if a.Tier == "thorough" {
		n = 20000
	}
	for k := 0; k < n; k++ {
		r := rng.Fork(uint64(1_000_000 + k))
		v := randVersion(r, r.Chance(5, 6))
		w := randVersion(r, r.Chance(5, 6))
		switch r.Intn(4) {
		case 0: // same core, other pre-release: exercises the identifier rules
			core := fmt.Sprintf("%d.%d.%d", r.Intn(2), r.Intn(2), r.Intn(2))
			v = core + "-" + randIdent(r, 0) + "." + randIdent(r, 0)
			w = core + "-" + randIdent(r, 0)
			if r.Bool() {
				w += "." + randIdent(r, 0)
			}
		case 1: // equal up to build metadata
			w = v
			if r.Bool() {
				w += "+" + randIdent(r, 1)
			}
		}
		out = append(out, caseSpec{Cmp: &cmpSpec{V: v, W: w}})
	}
	return out
}

// ---------- families added in the hardening round ----------

// lesson 1 (state across calls): ONE manager, the same plugin name installed several times so
// that the expected verdict changes between calls; a memo of the existing metadata, of the
// listing or of a Get result inside the manager (or the package) shows up here.
func genChains(a *Args, rng *Rng) []caseSpec {
	var out []caseSpec
	bin := func(n string) string { return "notation-" + n }
	triples := [][3]string{
		{"1.0.0", "1.1.0", "2.0.0"},
		{"1.0.0-beta.2", "1.0.0-beta.11", "1.0.0-rc.1"},
		{"9.0.0", "10.0.0", "10.0.1"},
		{"1.0.0-alpha", "1.0.0-alpha.1", "1.0.0-alpha.beta"},
		{"1.0.0-rc.1", "1.0.0-rc.1+build.9", "1.0.0"}, // middle = low up to build metadata
	}
	for ti, t := range triples {
		lo, mid, hi := t[0], t[1], t[2]
		for variant := 0; variant < 4; variant++ {
			b := newHB("chains")
			src := func(v string, k int) srcSpec {
				switch (k + variant) % 3 {
				case 0:
					return fileSrc(bin("foo"), 0o755, b.ok("foo", v))
				case 1:
					return dirSrc("pkg", ef("LICENSE", 0o644, b.data("lic", 1)), ef(bin("foo"), 0o755, b.ok("foo", v)), ef("v-"+fmt.Sprint(k)+".so", 0o644, b.data("lib", k)))
				}
				return dirSrc("pkg", ef(bin("foo"), 0o644, b.ok("foo", v)), ef("zz.txt", 0o644, b.data("z", k)))
			}
			switch variant {
			case 0: // up, up, then the middle one must be refused against the latest, not the first
				b.install(src(lo, 0), false)
				b.install(src(hi, 1), false)
				b.install(src(mid, 2), false)
				b.install(src(hi, 3), false) // equal
				b.install(src(lo, 4), true)  // overwrite down
				b.install(src(mid, 5), false) // now higher
			case 1: // uninstall forgets everything
				b.install(src(hi, 0), false)
				b.uninstall("foo")
				b.install(src(lo, 1), false)
				b.install(src(mid, 2), false)
				b.uninstall("foo")
				b.uninstall("foo")
			case 2: // refused, then accepted, then refused
				b.install(src(mid, 0), false)
				b.install(src(lo, 1), false)
				b.install(src(hi, 2), false)
				b.install(src(mid, 3), false)
				b.install(src(mid, 4), true)
				b.install(src(hi, 5), false)
			case 3: // two plugins interleaved on the same manager
				b.install(src(hi, 0), false)
				b.install(fileSrc(bin("bar"), 0o755, b.ok("bar", lo)), false)
				b.install(src(lo, 1), false)                                   // foo: refused
				b.install(fileSrc(bin("bar"), 0o755, b.ok("bar", mid)), false) // bar: accepted
				b.uninstall("foo")
				b.install(src(lo, 2), false) // foo: fresh
			}
			_ = ti
			out = append(out, b.done())
		}
	}
	// a broken plugin repaired and broken again on the same manager
	{
		b := newHB("chains")
		b.install(fileSrc(bin("foo"), 0o755, b.ok("foo", "1.0.0")), false)
		b.install(fileSrc(bin("foo"), 0o755, b.malformed("nodesc", "foo", "2.0.0")), true) // refused: new metadata invalid
		b.install(fileSrc(bin("foo"), 0o755, b.ok("foo", "latest")), true)                 // overwrite with an invalid version
		b.install(fileSrc(bin("foo"), 0o755, b.ok("foo", "2.0.0")), false)                 // version error
		b.install(fileSrc(bin("foo"), 0o755, b.ok("foo", "2.0.0")), true)
		b.install(fileSrc(bin("foo"), 0o755, b.ok("foo", "2.0.0+again")), false) // equal
		out = append(out, b.done())
	}
	return out
}

// lessons 2 and 4 (position): the odd entry at every position relative to the candidate, which
// of several candidates is the executable one, and the position of the plugin in the root.
func genPositions(a *Args, rng *Rng) []caseSpec {
	var out []caseSpec
	bin := func(n string) string { return "notation-" + n }
	type odd struct {
		label string
		make  func(b *hb, name string, k int) entrySpec
	}
	odds := []odd{
		{"plain", func(b *hb, name string, k int) entrySpec { return ef(name, 0o644, b.data("p", k)) }},
		{"plain-exec", func(b *hb, name string, k int) entrySpec { return ef(name, 0o755, b.okSalt("foo", "7.7.7", k)) }},
		{"empty-file", func(b *hb, name string, k int) entrySpec { return ef(name, 0o644, b.failing("empty")) }},
		{"subdir-with-exec", func(b *hb, name string, k int) entrySpec {
			return ed(name, fileSpec{bin("foo"), 0o755, b.okSalt("foo", "8.8.8", k)}, fileSpec{bin("sub"), 0o755, b.ok("sub", "1.0.0")})
		}},
		{"empty-subdir", func(b *hb, name string, k int) entrySpec { return ed(name) }},
		{"link", func(b *hb, name string, k int) entrySpec { return el(name) }},
	}
	// names sorting before / after "notation-foo"; the candidate-like ones are used for sub-directories and links too
	before := []string{"0-first", "notation-aaa", ".hidden", "notation", "NOTATION-foo"}
	after := []string{"zz-last", "notation-zzz", "notation-foo.bak", "notation.txt", "~"}
	for _, mainExec := range []bool{true, false} {
		mode := uint32(0o644)
		if mainExec {
			mode = 0o755
		}
		for oi, o := range odds {
			for pos := 0; pos < 3; pos++ { // 0 before, 1 after, 2 both
				for ni := 0; ni < len(before); ni++ {
					if a.Tier != "thorough" && (ni+oi+pos)%3 != 0 && ni > 1 {
						continue
					}
					b := newHB("positions")
					es := []entrySpec{ef(bin("foo"), mode, b.ok("foo", "1.0.0"))}
					if pos == 0 || pos == 2 {
						es = append(es, o.make(b, before[ni], 1))
					}
					if pos == 1 || pos == 2 {
						es = append(es, o.make(b, after[ni], 2))
					}
					b.init("foo", fileSpec{bin("foo"), 0o755, b.ok("foo", "0.9.0")}, fileSpec{"old.so", 0o644, b.data("old", 9)})
					b.install(dirSrc("pkg", es...), false)
					out = append(out, b.done())
				}
			}
		}
	}
	// which candidate is the executable one: k candidates, the executable at position j (or none)
	cn := []string{"aaa", "foo", "mmm", "zzz"}
	for k := 2; k <= 4; k++ {
		for j := -1; j < k; j++ {
			for j2 := j; j2 < k; j2++ { // a second executable at j2 > j (j2 == j: only one)
				if j < 0 && j2 > j {
					continue
				}
				b := newHB("positions")
				var es []entrySpec
				for i := 0; i < k; i++ {
					m := uint32(0o644)
					if i == j || i == j2 {
						m = 0o755
					}
					es = append(es, ef(bin(cn[i]), m, b.ok(cn[i], "1.0.0")))
				}
				es = append(es, ef("LICENSE", 0o644, b.data("lic", 1)), ef("zz.txt", 0o644, b.data("z", 1)))
				b.install(dirSrc("pkg", es...), false)
				out = append(out, b.done())
			}
		}
	}
	// position of the plugin directory in the root: first / middle / last, install then uninstall
	for _, others := range [][]string{{"goo", "hoo"}, {"aaa", "zzz"}, {"aaa", "bbb"}, {"fo", "foo2"}, {"Foo", "fOO"}} {
		b := newHB("positions")
		for _, o := range others {
			b.init(o, fileSpec{bin(o), 0o755, b.ok(o, "1.0.0")}, fileSpec{"lib.so", 0o644, b.data("lib", 1)})
		}
		b.install(fileSrc(bin("foo"), 0o755, b.ok("foo", "1.0.0")), false)
		b.install(fileSrc(bin(others[0]), 0o755, b.ok(others[0], "0.5.0")), false) // refused: the neighbour stays
		b.install(fileSrc(bin(others[1]), 0o755, b.ok(others[1], "1.5.0")), false) // accepted
		b.uninstall(others[0])
		b.uninstall("foo")
		b.uninstall(others[1])
		out = append(out, b.done())
	}
	return out
}

// lesson 3 (empty vs absent vs nil) and lesson 5 (rarely used legal syntax)
func genEdges(a *Args, rng *Rng) []caseSpec {
	var out []caseSpec
	bin := func(n string) string { return "notation-" + n }
	ctxs := func(b *hb, ctx int) {
		if ctx == 1 {
			b.init("foo", fileSpec{bin("foo"), 0o755, b.ok("foo", "0.9.0")}, fileSpec{"old.so", 0o644, b.data("old", 9)})
		}
	}
	type mk func(b *hb) srcSpec
	srcs := map[string]mk{
		// zero-length files
		"empty-exec-file":      func(b *hb) srcSpec { return fileSrc(bin("foo"), 0o755, b.failing("empty")) },
		"empty-nonexec-cand":   func(b *hb) srcSpec { return dirSrc("pkg", ef(bin("foo"), 0o644, b.failing("empty"))) },
		"empty-extras":         func(b *hb) srcSpec { return dirSrc("pkg", ef(".keep", 0o644, b.failing("empty")), ef(bin("foo"), 0o755, b.ok("foo", "1.0.0")), ef("zz.empty", 0o600, b.failing("empty"))) },
		"empty-extras-nonexec": func(b *hb) srcSpec { return dirSrc("pkg", ef("EMPTY", 0o644, b.failing("empty")), ef(bin("foo"), 0o644, b.ok("foo", "1.0.0")), ef("zz.empty", 0o755, b.failing("empty"))) },
		// metadata: empty / absent / null / wrong type
		"meta-null":       func(b *hb) srcSpec { return fileSrc(bin("foo"), 0o755, b.malformed("null", "foo", "1.0.0")) },
		"meta-emptyobj":   func(b *hb) srcSpec { return fileSrc(bin("foo"), 0o755, b.malformed("emptyobj", "foo", "1.0.0")) },
		"meta-emptyout":   func(b *hb) srcSpec { return fileSrc(bin("foo"), 0o755, b.malformed("emptyout", "foo", "1.0.0")) },
		"meta-numver":     func(b *hb) srcSpec { return fileSrc(bin("foo"), 0o755, b.malformed("numver", "foo", "1.0.0")) },
		"meta-nover":      func(b *hb) srcSpec { return fileSrc(bin("foo"), 0o755, b.malformed("nover", "foo", "1.0.0")) },
		"meta-emptyver":   func(b *hb) srcSpec { return dirSrc("pkg", ef(bin("foo"), 0o755, b.malformed("emptyver", "foo", ""))) },
		"meta-emptyname":  func(b *hb) srcSpec { return dirSrc("pkg", ef(bin("foo"), 0o644, b.malformed("emptyname", "", "1.0.0"))) },
		"meta-emptycaps":  func(b *hb) srcSpec { return fileSrc(bin("foo"), 0o755, b.malformed("emptycaps", "foo", "1.0.0")) },
		"meta-nourl":      func(b *hb) srcSpec { return fileSrc(bin("foo"), 0o755, b.malformed("nourl", "foo", "1.0.0")) },
		"meta-nourl-dir":  func(b *hb) srcSpec { return dirSrc("pkg", ef(bin("foo"), 0o644, b.malformed("nourl", "foo", "1.0.0")), ef("zz", 0o644, b.data("z", 1))) },
		"meta-nodesc":     func(b *hb) srcSpec { return fileSrc(bin("foo"), 0o755, b.malformed("nodesc", "foo", "1.0.0")) },
		"meta-badcontract": func(b *hb) srcSpec { return fileSrc(bin("foo"), 0o755, b.malformed("badcontract", "foo", "1.0.0")) },
		"meta-multicontract": func(b *hb) srcSpec { return fileSrc(bin("foo"), 0o755, b.cid(contentSpec{Kind: "ok", Variant: "multicontract", Name: "foo", Version: "1.0.0"})) },
		"meta-nocontract": func(b *hb) srcSpec { return fileSrc(bin("foo"), 0o755, b.malformed("nocontract", "foo", "1.0.0")) },
		"meta-dupname":    func(b *hb) srcSpec { return fileSrc(bin("foo"), 0o755, b.cid(contentSpec{Kind: "ok", Variant: "dupname", Name: "foo", Version: "1.0.0"})) },
		"meta-dupname-dir": func(b *hb) srcSpec {
			return dirSrc("pkg", ef(bin("foo"), 0o644, b.cid(contentSpec{Kind: "ok", Variant: "dupname", Name: "foo", Version: "1.0.0"})), ef("zz", 0o644, b.data("z", 1)))
		},
		// letter case: neither the prefix nor the plugin name is folded
		"case-file-Foo-meta-foo": func(b *hb) srcSpec { return fileSrc(bin("Foo"), 0o755, b.ok("foo", "1.0.0")) },
		"case-file-foo-meta-FOO": func(b *hb) srcSpec { return fileSrc(bin("foo"), 0o755, b.ok("FOO", "1.0.0")) },
		"case-dir-foo-meta-Foo":  func(b *hb) srcSpec { return dirSrc("pkg", ef(bin("foo"), 0o644, b.ok("Foo", "1.0.0")), ef("zz", 0o644, b.data("z", 1))) },
		"case-prefix-upper":      func(b *hb) srcSpec { return fileSrc("NOTATION-foo", 0o755, b.ok("foo", "1.0.0")) },
		"case-prefix-mixed-dir":  func(b *hb) srcSpec { return dirSrc("pkg", ef("Notation-foo", 0o755, b.ok("foo", "1.0.0")), ef("lib.so", 0o644, b.data("l", 1))) },
		// the prefix occurs twice / not at the start / the name has dots and hyphens
		"name-notation-foo":   func(b *hb) srcSpec { return fileSrc("notation-notation-foo", 0o755, b.ok("notation-foo", "1.0.0")) },
		"name-notation-foo-2": func(b *hb) srcSpec { return fileSrc("notation-notation-foo", 0o755, b.ok("foo", "1.0.0")) },
		"name-notation-foo-dir": func(b *hb) srcSpec {
			return dirSrc("pkg", ef("notation-notation-foo", 0o644, b.ok("notation-foo", "1.0.0")), ef("zz", 0o644, b.data("z", 1)))
		},
		"name-notation-":     func(b *hb) srcSpec { return fileSrc("notation-notation-", 0o755, b.ok("notation-", "1.0.0")) },
		"name-inner-prefix":  func(b *hb) srcSpec { return fileSrc("x-notation-foo", 0o755, b.ok("foo", "1.0.0")) },
		"name-inner-prefix-dir": func(b *hb) srcSpec { return dirSrc("pkg", ef("x-notation-foo", 0o755, b.ok("foo", "1.0.0"))) },
		"name-ext":           func(b *hb) srcSpec { return fileSrc("notation-foo.exe", 0o755, b.ok("foo.exe", "1.0.0")) },
		"name-ext-stripped":  func(b *hb) srcSpec { return fileSrc("notation-foo.exe", 0o755, b.ok("foo", "1.0.0")) },
		"name-hyphens":       func(b *hb) srcSpec { return fileSrc("notation-a-b-c", 0o755, b.ok("a-b-c", "1.0.0")) },
		"name-hidden":        func(b *hb) srcSpec { return fileSrc("notation-.hidden", 0o755, b.ok(".hidden", "1.0.0")) },
		"name-space-end":     func(b *hb) srcSpec { return fileSrc("notation-foo ", 0o755, b.ok("foo", "1.0.0")) },
		"name-space-end-ok":  func(b *hb) srcSpec { return fileSrc("notation-foo ", 0o755, b.ok("foo ", "1.0.0")) },
		// notation-. / notation-.. / notation-a\b do not follow the notation-{plugin-name} format (30cc14e):
		// neither executable candidates nor chmod candidates, just regular files that are copied along
		"dotname-exec-beside":    func(b *hb) srcSpec { return dirSrc("pkg", ef(bin(".."), 0o755, b.ok("..", "9.0.0")), ef(bin("foo"), 0o755, b.ok("foo", "1.0.0"))) },
		"dotname-nonexec-beside": func(b *hb) srcSpec { return dirSrc("pkg", ef(bin("."), 0o644, b.ok(".", "9.0.0")), ef(bin("foo"), 0o644, b.ok("foo", "1.0.0"))) },
		"dotname-exec-alone":     func(b *hb) srcSpec { return dirSrc("pkg", ef(bin(".."), 0o755, b.ok("..", "1.0.0")), ef("LICENSE", 0o644, b.data("lic", 1))) },
		"dotname-nonexec-alone":  func(b *hb) srcSpec { return dirSrc("pkg", ef(bin("."), 0o644, b.ok(".", "1.0.0"))) },
		"backslash-beside":       func(b *hb) srcSpec { return dirSrc("pkg", ef(bin("a\\b"), 0o755, b.ok("a\\b", "9.0.0")), ef(bin("foo"), 0o644, b.ok("foo", "1.0.0"))) },
		"dotname-file":           func(b *hb) srcSpec { return fileSrc(bin(".."), 0o755, b.ok("..", "1.0.0")) },
		// hidden files are files
		"dotfiles": func(b *hb) srcSpec {
			return dirSrc("pkg", ef(".gitignore", 0o644, b.data("gi", 1)), ef(".notation-foo", 0o755, b.ok("foo", "3.0.0")), ef(bin("foo"), 0o755, b.ok("foo", "1.0.0")), ef("~cache", 0o600, b.data("c", 1)))
		},
		"dotfiles-nonexec": func(b *hb) srcSpec { return dirSrc(".pkg", ef(".env", 0o600, b.data("env", 1)), ef(bin("foo"), 0o644, b.ok("foo", "1.0.0"))) },
		"dot-subdir":       func(b *hb) srcSpec { return dirSrc("pkg", ed(".git", fileSpec{"HEAD", 0o644, b.data("h", 1)}), ef(bin("foo"), 0o755, b.ok("foo", "1.0.0"))) },
		// path forms
		"slash-exec": func(b *hb) srcSpec {
			s := dirSrc("pkg", ef("LICENSE", 0o644, b.data("lic", 1)), ef(bin("foo"), 0o755, b.ok("foo", "1.0.0")), ed("docs", fileSpec{"x", 0o644, b.data("x", 1)}))
			s.Slash = true
			return s
		},
		"slash-nonexec": func(b *hb) srcSpec {
			s := dirSrc("pkg", ef(bin("foo"), 0o644, b.ok("foo", "1.0.0")), ef("zz", 0o644, b.data("z", 1)), ed("pkg", fileSpec{bin("foo"), 0o755, b.okSalt("foo", "5.0.0", 3)}))
			s.Slash = true
			return s
		},
		"vialink":         func(b *hb) srcSpec { s := fileSrc(bin("foo"), 0o755, b.ok("foo", "1.0.0")); s.ViaLink = true; return s },
		"vialink-nonexec": func(b *hb) srcSpec { s := fileSrc(bin("foo"), 0o644, b.ok("foo", "1.0.0")); s.ViaLink = true; return s },
	}
	var labels []string
	for l := range srcs {
		labels = append(labels, l)
	}
	sort.Strings(labels)
	for _, l := range labels {
		for ctx := 0; ctx < 2; ctx++ {
			for _, ow := range []bool{false, true} {
				if ow && ctx == 0 && a.Tier != "thorough" {
					continue
				}
				b := newHB("edges")
				ctxs(b, ctx)
				b.install(srcs[l](b), ow)
				out = append(out, b.done())
			}
		}
	}
	// a root holding directories whose names differ by case / are empty of files / absent
	{
		b := newHB("edges")
		b.init("Foo", fileSpec{bin("Foo"), 0o755, b.ok("Foo", "2.0.0")})
		b.init("empty")
		b.install(fileSrc(bin("foo"), 0o755, b.ok("foo", "1.0.0")), false) // not a downgrade of "Foo"
		b.install(fileSrc(bin("empty"), 0o755, b.ok("empty", "1.0.0")), false)
		b.uninstall("FOO")
		b.uninstall("Foo")
		b.uninstall("foo")
		out = append(out, b.done())
	}
	return out
}

// ---------- near-miss version strings (seed C20-5) ----------

// Strings that look like versions but are not SemVer 2.0.0 (the last one is empty: metadata
// with an empty version is invalid metadata). golang.org/x/mod/semver, Masterminds-style
// "loose" parsers and strings.TrimSpace-ing validators accept several of them ("1", "1.1",
// "2.0", "1.0" as shorthands; "v1.0.0"; surrounding blanks), so a validity check delegated to
// such a library shows up here and nowhere else.
var nearMissVersions = []string{"1.1", "1", "2.0", "v1.0.0", "1.0.0.0", "01.0.0", "1.0.0-", "1.0.0+", "1.0", " 1.0.0", "1.0.0 ", "1.0.0-01", "1.0.0-a..b", ""}

// genNearMiss: every near-miss string in BOTH roles (version of the installed plugin, version
// of the new plugin) of two-, three- and four-step install histories without overwrite on ONE
// manager. What must happen is fixed by the property text (an invalid version is refused, the
// root stays untouched, the next legitimate upgrade is judged against the untouched plugin) and
// is written into every step (opSpec.Expect): the driver judges it on the Go side too.
func genNearMiss(a *Args, rng *Rng) []caseSpec {
	var out []caseSpec
	bin := "notation-foo"
	src := func(b *hb, k int, cid int) srcSpec {
		switch k % 3 {
		case 0:
			return fileSrc(bin, 0o755, cid)
		case 1:
			return dirSrc("pkg", ef("LICENSE", 0o644, b.data("lic", 1)), ef("a.txt", 0o666, b.data("a", 2)),
				ef(bin, 0o755, cid), ef("zlib.so", 0o777, b.data("z", 4)))
		}
		return dirSrc("src", ef(bin, 0o644, cid), ef("zz-notes.txt", 0o644, b.data("n", 1)))
	}
	// content answering with version v ("" = metadata with an empty version: malformed)
	content := func(b *hb, v string, salt int) int {
		if v == "" {
			return b.cid(contentSpec{Kind: "malformed", Variant: "emptyver", Name: "foo", Version: "", Salt: salt})
		}
		return b.okSalt("foo", v, salt)
	}
	add := func(b *hb, s srcSpec, ow bool, expect string) {
		b.install(s, ow)
		b.h.Ops[len(b.h.Ops)-1].Expect = expect
	}
	for si, s := range nearMissVersions {
		// role "new": a proper plugin is installed, the near-miss must be refused, the next upgrade accepted
		for k, ex := range [][2]string{{"1.0.0", "1.0.5"}, {"1.1.0", "1.1.5"}, {"3.0.0", "3.0.5"}} {
			b := newHB("nearmiss")
			add(b, src(b, 0, content(b, ex[0], 0)), false, "ok:"+ex[0]+"|-")
			refuse := "refuse:EVersion"
			if s == "" {
				refuse = "refuse:EMetaInvalid"
			}
			add(b, src(b, si+k, content(b, s, 1)), false, refuse)
			add(b, src(b, si+k+1, content(b, ex[1], 2)), false, "ok:"+ex[1]+"|"+ex[0])
			out = append(out, b.done())
		}
		// role "installed": the near-miss gets in by a fresh installation (no comparison happens),
		// then every installation without overwrite must be refused until overwrite is set
		for k, nw := range []string{"1.0.0", "3.0.0"} {
			b := newHB("nearmiss")
			if s == "" {
				add(b, src(b, 0, content(b, s, 0)), false, "refuse:EMetaInvalid")
				add(b, src(b, si+k, content(b, nw, 1)), false, "ok:"+nw+"|-")
				add(b, src(b, si+k+1, content(b, s, 2)), false, "refuse:EMetaInvalid")
				add(b, src(b, si+k+2, content(b, nw, 3)), true, "ok:"+nw+"|"+nw)
			} else {
				add(b, src(b, 0, content(b, s, 0)), false, "ok:"+s+"|-")
				add(b, src(b, si+k, content(b, nw, 1)), false, "refuse:EVersion")
				add(b, src(b, si+k+1, content(b, s, 2)), false, "refuse:EVersion")
				add(b, src(b, si+k+2, content(b, nw, 3)), true, "ok:"+nw+"|"+s)
			}
			out = append(out, b.done())
		}
		// role "installed", the plugin being there before the manager is created
		{
			b := newHB("nearmiss")
			b.init("foo", fileSpec{bin, 0o755, content(b, s, 0)}, fileSpec{"old.so", 0o644, b.data("old", 9)})
			refuse, exv := "refuse:EVersion", s
			if s == "" {
				refuse, exv = "refuse:EExistMeta", "-"
			}
			add(b, src(b, si, content(b, "1.0.0", 1)), false, refuse)
			add(b, src(b, si+1, content(b, "0.0.1", 2)), false, refuse)
			add(b, src(b, si+2, content(b, "2.0.0", 3)), true, "ok:2.0.0|"+exv)
			out = append(out, b.done())
		}
		// both roles at once (two steps): the next near-miss over this one
		if s != "" {
			t := nearMissVersions[(si+1)%(len(nearMissVersions)-1)]
			b := newHB("nearmiss")
			add(b, src(b, si, content(b, s, 0)), false, "ok:"+s+"|-")
			add(b, src(b, si+1, content(b, t, 1)), false, "refuse:EVersion")
			out = append(out, b.done())
		}
	}
	return out
}

// ---------- the place of the source (6dc7abe) ----------

// genPlaces: sources inside the plugin root - the plugin's own directory (directly, with a trailing separator,
// through a symbolic link), its own executable, another file of it, the directory / a file of ANOTHER plugin
// holding an executable named for foo, a link into another plugin's directory, links to directories without
// trailing separator, missing directories and files - with and without overwrite, alone and inside histories
// with ordinary installations before and after. Not generated (docs/audit/C20.md): a directory of the
// root whose only candidate is not executable (the documented chmod of a directory source then changes the root).
func genPlaces(a *Args, rng *Rng) []caseSpec {
	var out []caseSpec
	bin := func(n string) string { return "notation-" + n }
	root := func(b *hb, fooVer string) {
		b.h.At = true
		b.init("foo", fileSpec{bin("foo"), 0o755, b.ok("foo", fooVer)}, fileSpec{"lib.so", 0o644, b.data("lib", 1)})
		b.init("bar", fileSpec{bin("bar"), 0o755, b.ok("bar", "0.5.0")}, fileSpec{bin("foo"), 0o755, b.okSalt("foo", "2.0.0", 2)})
		b.init("baz", fileSpec{"data", 0o644, b.data("d", 1)}, fileSpec{bin("foo"), 0o755, b.okSalt("foo", "3.0.0", 3)})
		b.init("qux", fileSpec{bin("qux"), 0o755, b.ok("qux", "latest")})
		b.init("quux", fileSpec{bin("quux"), 0o755, b.malformed("nodesc", "quux", "1.0.0")}, fileSpec{"x.so", 0o644, b.data("x", 1)})
	}
	inDir := func(k string, form int) srcSpec {
		return srcSpec{Kind: "indir", Name: k, Slash: form == 1, ViaLink: form == 2}
	}
	inFile := func(k, f string) srcSpec { return srcSpec{Kind: "infile", Name: k, File: fileSpec{Name: f}} }
	singles := []srcSpec{
		inDir("foo", 0), inDir("foo", 1), inDir("foo", 2), inFile("foo", bin("foo")), inFile("foo", "lib.so"), inFile("foo", "nope"),
		inDir("nope", 0), inDir("baz", 0), inDir("baz", 1), inDir("baz", 2), inFile("baz", bin("foo")), inFile("bar", bin("foo")),
		inDir("bar", 0), inFile("bar", bin("bar")), inDir("qux", 0), inDir("qux", 2), inFile("qux", bin("qux")), inDir("quux", 0), inFile("quux", bin("quux")),
		{Kind: "linkdir", Name: "foo"}, {Kind: "linkdir", Name: "baz"}, {Kind: "linkdir"},
		{Kind: "linkfile", Link: bin("foo"), Name: "baz", File: fileSpec{Name: bin("foo")}},
		{Kind: "linkfile", Link: bin("foo"), Name: "bar", File: fileSpec{Name: bin("foo")}},
		{Kind: "linkfile", Link: bin("bar"), Name: "bar", File: fileSpec{Name: "nope"}},
		{Kind: "linkfile", Link: "lib.so", Name: "foo", File: fileSpec{Name: "lib.so"}},
		// ccdc027: links that resolve into the plugin's own directory
		{Kind: "linkfile", Link: bin("foo"), Name: "foo", File: fileSpec{Name: bin("foo")}}, // link -> own executable
		{Kind: "linkfile", Link: bin("qux"), Name: "qux", File: fileSpec{Name: bin("qux")}}, // ... of a plugin with an invalid version
		{Kind: "linkfile", Link: bin("baz"), Name: "foo", File: fileSpec{Name: bin("foo")}}, // named for another plugin: misnamed metadata
		{Kind: "linkfile", Link: bin("bar"), Name: "bar", File: fileSpec{Name: bin("bar")}}, // own executable of a directory with two candidates
		{Kind: "linkdir", Name: "qux"},
	}
	for _, fooVer := range []string{"1.0.0", "5.0.0"} { // foo below / above what bar and baz hold
		for _, s := range singles {
			for _, ow := range []bool{false, true} {
				b := newHB("places")
				root(b, fooVer)
				b.install(s, ow)
				out = append(out, b.done())
			}
		}
	}
	// inside histories: ordinary installations before and after, the own directory again after an upgrade
	// from another plugin's directory, the other directory removed
	for _, ow := range []bool{false, true} {
		for form := 0; form < 3; form++ {
			b := newHB("places")
			root(b, "1.0.0")
			b.install(fileSrc(bin("foo"), 0o755, b.okSalt("foo", "1.5.0", 5)), false) // ordinary upgrade
			b.install(inDir("foo", form), ow)                                         // own directory: equal version / installed plugin itself
			b.install(inFile("foo", bin("foo")), ow)
			b.install(inDir("baz", form), ow) // 3.0.0 from another plugin's directory
			b.install(inDir("foo", (form+1)%3), true)
			b.install(fileSrc(bin("foo"), 0o755, b.okSalt("foo", "3.0.1", 6)), false) // judged against what is really there
			out = append(out, b.done())
		}
		b := newHB("places")
		root(b, "1.0.0")
		b.install(inFile("bar", bin("foo")), ow) // foo 2.0.0 from a file of bar
		b.uninstall("bar")
		b.install(inFile("bar", bin("foo")), ow) // gone
		b.install(inDir("bar", 0), true)
		b.install(inDir("foo", 0), ow)
		b.install(srcSpec{Kind: "linkfile", Link: bin("foo"), Name: "foo", File: fileSpec{Name: bin("foo")}}, ow) // link -> own executable
		b.install(fileSrc(bin("foo"), 0o755, b.okSalt("foo", "9.9.9", 7)), false)                                // still judged against what is there
		b.uninstall("foo")
		b.install(inDir("foo", 0), true)
		out = append(out, b.done())
	}
	return out
}

// ---------- corpus: regression inputs (JSON files holding a caseSpec) ----------

func genCorpus(a *Args) []caseSpec {
	var out []caseSpec
	if a.Corpus == "" {
		return out
	}
	files, _ := filepath.Glob(filepath.Join(a.Corpus, "*.json"))
	sort.Strings(files)
	for _, f := range files {
		b, err := os.ReadFile(f)
		if err != nil {
			continue
		}
		var c caseSpec
		if json.Unmarshal(b, &c) == nil && (c.Hist != nil || c.Cmp != nil) {
			if c.Hist != nil {
				c.Hist.Family = "corpus"
			}
			out = append(out, c)
		}
	}
	return out
}

func generate(a *Args) []caseSpec {
	rng := NewRng(a.Seed)
	var out []caseSpec
	out = append(out, genCorpus(a)...)
	out = append(out, genShapes(a, rng.Fork(1))...)
	out = append(out, genBroken(a, rng.Fork(2))...)
	out = append(out, genChains(a, rng.Fork(6))...)
	out = append(out, genPositions(a, rng.Fork(7))...)
	out = append(out, genEdges(a, rng.Fork(8))...)
	out = append(out, genPairs(a, rng.Fork(3))...)
	nrand := 250
	if a.Tier == "thorough" {
		nrand = 6000
	}
	out = append(out, genRandom(a, rng.Fork(4), nrand)...)
	out = append(out, genNearMiss(a, rng.Fork(9))...)
	out = append(out, genPlaces(a, rng.Fork(10))...)
	out = append(out, genCompare(a, rng.Fork(5))...)
	return out
}
