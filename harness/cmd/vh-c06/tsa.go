package main

// An in-harness RFC 3161 time-stamping authority: CMS SignedData over a
// TSTInfo, assembled with encoding/asn1 (ECDSA P-256 / SHA-256, signed
// attributes content-type, message-digest, signingCertificateV2). What the
// verifier's dependencies (tspclient-go, crypto/x509, notation-core-go) make
// of a token is always asked from them (tsaFacts), never assumed from the way
// the token was built.

import (
	"crypto"
	"crypto/ecdsa"
	"crypto/elliptic"
	"crypto/rand"
	"crypto/sha256"
	"crypto/x509"
	"crypto/x509/pkix"
	"encoding/asn1"
	"math/big"
	"sync/atomic"
	"time"

	"github.com/notaryproject/tspclient-go"
)

var (
	oidSignedData    = asn1.ObjectIdentifier{1, 2, 840, 113549, 1, 7, 2}
	oidData          = asn1.ObjectIdentifier{1, 2, 840, 113549, 1, 7, 1}
	oidTSTInfo       = asn1.ObjectIdentifier{1, 2, 840, 113549, 1, 9, 16, 1, 4}
	oidContentType   = asn1.ObjectIdentifier{1, 2, 840, 113549, 1, 9, 3}
	oidMsgDigest     = asn1.ObjectIdentifier{1, 2, 840, 113549, 1, 9, 4}
	oidSigningCertV2 = asn1.ObjectIdentifier{1, 2, 840, 113549, 1, 9, 16, 2, 47}
	oidSHA256        = asn1.ObjectIdentifier{2, 16, 840, 1, 101, 3, 4, 2, 1}
	oidBogusHash     = asn1.ObjectIdentifier{1, 3, 6, 1, 4, 1, 99999, 7}
	oidECDSASHA256   = asn1.ObjectIdentifier{1, 2, 840, 10045, 4, 3, 2}
	oidPolicy        = asn1.ObjectIdentifier{1, 3, 6, 1, 4, 1, 99999, 1}
	oidBaseline      = asn1.ObjectIdentifier{0, 4, 0, 2023, 1, 1} // baseline timestamp policy: zero accuracy means 1 s
)

type contentInfo struct {
	ContentType asn1.ObjectIdentifier
	Content     asn1.RawValue `asn1:"explicit,tag:0"`
}
type encapContentInfo struct {
	ContentType asn1.ObjectIdentifier
	Content     []byte `asn1:"explicit,optional,tag:0"`
}
type issuerAndSerial struct {
	Issuer       asn1.RawValue
	SerialNumber *big.Int
}
type attribute struct {
	Type   asn1.ObjectIdentifier
	Values asn1.RawValue `asn1:"set"`
}
type cmsSignerInfo struct {
	Version            int
	SID                issuerAndSerial
	DigestAlgorithm    pkix.AlgorithmIdentifier
	SignedAttributes   asn1.RawValue `asn1:"optional,tag:0"`
	SignatureAlgorithm pkix.AlgorithmIdentifier
	Signature          []byte
}
type signedData struct {
	Version          int
	DigestAlgorithms []pkix.AlgorithmIdentifier `asn1:"set"`
	EncapContentInfo encapContentInfo
	Certificates     asn1.RawValue   `asn1:"optional,tag:0"`
	SignerInfos      []cmsSignerInfo `asn1:"set"`
}
type essCertIDv2 struct {
	CertHash []byte
}
type signingCertificateV2 struct {
	Certs []essCertIDv2
}

func must[T any](v T, err error) T {
	if err != nil {
		panic(err)
	}
	return v
}

func setOf(der []byte) asn1.RawValue {
	return asn1.RawValue{Class: asn1.ClassUniversal, Tag: asn1.TagSet, IsCompound: true, Bytes: der}
}

// tokenSpec says how the mini-TSA builds one token.
type tokenSpec struct {
	Message     []byte
	GenTime     time.Time
	AccSeconds  int
	Baseline    bool // policy = baseline timestamp policy OID
	Version     int  // TSTInfo version (1 = valid)
	BogusHash   bool // unknown hash algorithm in the message imprint
	ContentType asn1.ObjectIdentifier
	GarbageInfo bool // eContent is not a TSTInfo
	CorruptSig  bool // signature over the signed attributes is damaged
	Leaf        *tsaCert
	Extra       []*x509.Certificate // other certificates carried by the token
}

type tsaCert struct {
	C   *x509.Certificate
	Key *ecdsa.PrivateKey
}

func makeToken(s tokenSpec) []byte {
	h := sha256.Sum256(s.Message)
	pol := oidPolicy
	if s.Baseline {
		pol = oidBaseline
	}
	hashOID := oidSHA256
	if s.BogusHash {
		hashOID = oidBogusHash
	}
	info := tspclient.TSTInfo{Version: s.Version, Policy: pol,
		MessageImprint: tspclient.MessageImprint{HashAlgorithm: pkix.AlgorithmIdentifier{Algorithm: hashOID}, HashedMessage: h[:]},
		SerialNumber:   big.NewInt(42), GenTime: s.GenTime.UTC().Truncate(time.Second), Accuracy: tspclient.Accuracy{Seconds: s.AccSeconds}}
	infoDER := must(asn1.Marshal(info))
	if s.GarbageInfo {
		infoDER = []byte{0x04, 0x03, 'b', 'a', 'd'}
	}
	ctype := s.ContentType
	if ctype == nil {
		ctype = oidTSTInfo
	}
	md := sha256.Sum256(infoDER)
	ch := sha256.Sum256(s.Leaf.C.Raw)
	a1 := must(asn1.Marshal(attribute{Type: oidContentType, Values: setOf(must(asn1.Marshal(ctype)))}))
	a2 := must(asn1.Marshal(attribute{Type: oidMsgDigest, Values: setOf(must(asn1.Marshal(md[:])))}))
	a3 := must(asn1.Marshal(attribute{Type: oidSigningCertV2, Values: setOf(must(asn1.Marshal(signingCertificateV2{Certs: []essCertIDv2{{CertHash: ch[:]}}})))}))
	attrs := append(append(append([]byte{}, a1...), a2...), a3...)
	toSign := must(asn1.Marshal(setOf(attrs)))
	d := sha256.Sum256(toSign)
	sig := must(s.Leaf.Key.Sign(rand.Reader, d[:], crypto.SHA256))
	if s.CorruptSig {
		// re-sign another digest: a well-formed ECDSA signature that does not verify
		d[0] ^= 0xff
		sig = must(s.Leaf.Key.Sign(rand.Reader, d[:], crypto.SHA256))
	}
	var certs []byte
	certs = append(certs, s.Leaf.C.Raw...)
	for _, c := range s.Extra {
		certs = append(certs, c.Raw...)
	}
	sd := signedData{Version: 3, DigestAlgorithms: []pkix.AlgorithmIdentifier{{Algorithm: oidSHA256}},
		EncapContentInfo: encapContentInfo{ContentType: ctype, Content: infoDER},
		Certificates:     asn1.RawValue{Class: asn1.ClassContextSpecific, Tag: 0, IsCompound: true, Bytes: certs},
		SignerInfos: []cmsSignerInfo{{Version: 1, SID: issuerAndSerial{Issuer: asn1.RawValue{FullBytes: s.Leaf.C.RawIssuer}, SerialNumber: s.Leaf.C.SerialNumber},
			DigestAlgorithm:    pkix.AlgorithmIdentifier{Algorithm: oidSHA256},
			SignedAttributes:   asn1.RawValue{Class: asn1.ClassContextSpecific, Tag: 0, IsCompound: true, Bytes: attrs},
			SignatureAlgorithm: pkix.AlgorithmIdentifier{Algorithm: oidECDSASHA256}, Signature: sig}}}
	sdDER := must(asn1.Marshal(sd))
	return must(asn1.Marshal(contentInfo{ContentType: oidSignedData, Content: asn1.RawValue{Class: asn1.ClassContextSpecific, Tag: 0, IsCompound: true, Bytes: sdDER}}))
}

// ---- TSA certificates ----

var tsaSerial int64 = 500000

type tsaCertSpec struct {
	CN         string
	NotBefore  time.Time
	NotAfter   time.Time
	CA         bool
	KeyUsage   x509.KeyUsage
	EKU        int // 0 none, 1 critical timeStamping, 2 non-critical timeStamping, 3 critical codeSigning
	NoKeyUsage bool
}

func mintTSA(s tsaCertSpec, parent *tsaCert) *tsaCert {
	key := must(ecdsa.GenerateKey(elliptic.P256(), rand.Reader))
	tpl := &x509.Certificate{
		SerialNumber:          big.NewInt(atomic.AddInt64(&tsaSerial, 1)),
		Subject:               pkix.Name{CommonName: s.CN, Organization: []string{"Verif TSA"}, Country: []string{"US"}, Province: []string{"WA"}},
		NotBefore:             s.NotBefore,
		NotAfter:              s.NotAfter,
		BasicConstraintsValid: true,
		IsCA:                  s.CA,
		KeyUsage:              s.KeyUsage,
	}
	if s.NoKeyUsage {
		tpl.KeyUsage = 0
	}
	ekuOID := asn1.ObjectIdentifier{1, 3, 6, 1, 5, 5, 7, 3, 8}
	switch s.EKU {
	case 1, 2:
		v := must(asn1.Marshal([]asn1.ObjectIdentifier{ekuOID}))
		tpl.ExtraExtensions = append(tpl.ExtraExtensions, pkix.Extension{Id: asn1.ObjectIdentifier{2, 5, 29, 37}, Critical: s.EKU == 1, Value: v})
	case 3:
		v := must(asn1.Marshal([]asn1.ObjectIdentifier{{1, 3, 6, 1, 5, 5, 7, 3, 3}}))
		tpl.ExtraExtensions = append(tpl.ExtraExtensions, pkix.Extension{Id: asn1.ObjectIdentifier{2, 5, 29, 37}, Critical: true, Value: v})
	}
	signer, ptpl := key, tpl
	if parent != nil {
		signer, ptpl = parent.Key, parent.C
	}
	der := must(x509.CreateCertificate(rand.Reader, tpl, ptpl, &key.PublicKey, signer))
	return &tsaCert{C: must(x509.ParseCertificate(der)), Key: key}
}
