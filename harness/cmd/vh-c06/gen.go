package main

// Case generators of the C06 driver. Every family starts from a case on which
// both validations pass and applies one edit that violates (or sits on the
// edge of) one rule of the property.

import (
	. "vh/kit"
)

func ip(x int) *int { return &x }

var (
	c06Formats = []string{MtJWS, MtCOSE}
	c06Levels  = []string{"strict", "permissive", "audit"}
	c06Actions = []string{"Enforce", "Log"}
	c06Opts    = []string{"", "always", "afterCertExpiry"}
)

// valid returns a case on which expiry and authentic timestamp pass:
// every certificate valid from long before to long after now and the signing
// time, no expiry, no tsa store.
func valid(rng *Rng, sa bool, n int) *c06Case {
	c := &c06Case{Fam: "valid", Format: Pick(rng, c06Formats), SA: sa, SigH: -2, Level: Pick(rng, c06Levels),
		AExp: Pick(rng, c06Actions), ATs: Pick(rng, c06Actions), Opt: Pick(rng, c06Opts)}
	for i := 0; i < n; i++ {
		c.Win = append(c.Win, [2]int{-Pick(rng, []int{200, 100, 60}), Pick(rng, []int{60, 100, 200})})
	}
	c.Stores = schemeStores(rng, sa, nil)
	c.Tok = tokDesc{Kind: "none", Msg: "sig", PKI: "a"}
	return c
}

// schemeStores builds the trustStores list: the store that makes the signing
// chain authentic plus the given tsa entries, in a random arrangement.
func schemeStores(rng *Rng, sa bool, tsa []string) []string {
	own := "ca:s"
	if sa {
		own = "signingAuthority:s"
	}
	out := []string{}
	pos := rng.Intn(len(tsa) + 1)
	for i, t := range tsa {
		if i == pos {
			out = append(out, own)
		}
		out = append(out, t)
	}
	if pos == len(tsa) {
		out = append(out, own)
	}
	if rng.Chance(1, 5) {
		// a store of the other scheme's type is ignored by everything here
		if sa {
			out = append(out, "ca:s")
		} else {
			out = append(out, "signingAuthority:s")
		}
	}
	return out
}

// withTSA turns a valid notary.x509 case into one where timestamp
// verification applies and passes: tsa store of PKI a, option unset/always,
// token issued 20 h ago with 1 s accuracy.
func withTSA(rng *Rng, c *c06Case, pki string, stores ...string) {
	if len(stores) == 0 {
		stores = []string{"tsa:" + pki}
	}
	c.Stores = schemeStores(rng, c.SA, stores)
	c.Opt = Pick(rng, []string{"", "always"})
	c.Tok = tokDesc{Kind: "ok", Msg: "sig", PKI: pki, GenH: -20, Acc: 1}
}

func generate(a *Args, rng *Rng, run func(*c06Case)) {
	thorough := a.Tier == "thorough"
	reps := 1
	if thorough {
		reps = 6
	}
	chainLens := []int{1, 2, 3, 4}
	for rep := 0; rep < reps; rep++ {
		// ---- 0. all valid
		for _, sa := range []bool{false, true} {
			for _, n := range chainLens {
				run(valid(rng, sa, n))
			}
		}

		// ---- 1. expiry against now (never against the signing time)
		for _, sa := range []bool{false, true} {
			for _, e := range []int{-40, -20, -3, -2, -1, 1, 2, 5, 30} {
				for _, aexp := range c06Actions {
					c := valid(rng, sa, 1+rng.Intn(3))
					c.Fam = "expiry"
					c.AExp = aexp
					c.ExpH = ip(e)
					c.SigH = e - Pick(rng, []int{1, 5, 50}) // expiry is always after the signing time (envelope rule)
					if c.SigH < -55 {
						c.SigH = -55
					}
					run(c)
				}
			}
		}

		// ---- 2. signingAuthority: every certificate against the signing time
		for _, n := range chainLens {
			for k := 0; k < n; k++ {
				for _, sig := range []int{-30, -5, 5} {
					edits := []struct {
						name   string
						nb, na int
					}{
						{"sa:notBefore after signing time", sig + Pick(rng, []int{1, 3, 20}), 100},
						{"sa:notAfter before signing time", -100, sig - Pick(rng, []int{1, 3, 20})},
						{"sa:notBefore = signing time", sig, 100},
						{"sa:notAfter = signing time", -100, sig},
						{"sa:valid at signing time, other side of now", -100, sig + 2}, // sig<0: expired now; sig>0: fine
						{"sa:starts just before signing time", sig - 1, 100},           // sig>0: not yet valid now
					}
					for _, e := range edits {
						if !thorough && n == 4 && rng.Chance(1, 2) {
							continue
						}
						c := valid(rng, true, n)
						c.Fam = e.name
						c.SigH = sig
						c.Win[k] = [2]int{e.nb, e.na}
						if rng.Chance(1, 3) {
							// tsa stores and tokens are irrelevant under signingAuthority
							c.Stores = schemeStores(rng, true, []string{Pick(rng, []string{"tsa:a", "tsa:missing", "tsa:empty"})})
						}
						run(c)
					}
				}
			}
			// two violating certificates: the first in chain order is named
			if n >= 2 {
				c := valid(rng, true, n)
				c.Fam = "sa:two certificates"
				c.SigH = -5
				i, j := rng.Intn(n), rng.Intn(n)
				c.Win[i] = [2]int{-3, 100}
				c.Win[j] = [2]int{-100, -8}
				run(c)
			}
		}

		// ---- 3. notary.x509 without timestamp verification: every certificate against now
		for _, n := range chainLens {
			for k := 0; k < n; k++ {
				for _, sig := range []int{-30, -5} {
					edits := []struct {
						name   string
						nb, na int
					}{
						{"x509:expired now, valid at signing time", -100, Pick(rng, []int{-1, -3, sig + 2})},
						{"x509:not yet valid now", Pick(rng, []int{1, 3, 40}), 100},
						{"x509:valid now, not yet valid at signing time", sig + 2, 100},
						{"x509:expired long before signing time", -100, sig - 10},
					}
					for _, e := range edits {
						for _, mode := range []int{0, 1} { // 0: no tsa store; 1: tsa store + afterCertExpiry (applies only if expired)
							if !thorough && n >= 3 && rng.Chance(1, 2) {
								continue
							}
							c := valid(rng, false, n)
							c.Fam = e.name
							c.SigH = sig
							c.Win[k] = [2]int{e.nb, e.na}
							if mode == 1 {
								c.Fam += " (tsa store, afterCertExpiry)"
								c.Stores = schemeStores(rng, false, []string{"tsa:a"})
								c.Opt = "afterCertExpiry"
								if rng.Bool() {
									c.Tok = tokDesc{Kind: "ok", Msg: "sig", PKI: "a", GenH: sig - 1, Acc: 1}
								}
							}
							run(c)
						}
					}
				}
			}
			if n >= 2 {
				c := valid(rng, false, n)
				c.Fam = "x509:two certificates"
				i, j := rng.Intn(n), rng.Intn(n)
				c.Win[i] = [2]int{4, 100}
				c.Win[j] = [2]int{-100, -4}
				run(c)
			}
		}

		// ---- 4. notary.x509 with timestamp verification
		for _, n := range chainLens {
			// 4a. passes: chain valid now / a certificate expired now but valid at the timestamp
			for _, pk := range []string{"a", "b", "d"} {
				c := valid(rng, false, n)
				c.Fam = "tsa:passes"
				withTSA(rng, c, pk)
				run(c)
				c = valid(rng, false, n)
				c.Fam = "tsa:expired now, valid at timestamp"
				withTSA(rng, c, pk)
				c.Opt = Pick(rng, c06Opts)
				c.Win[rng.Intn(n)] = [2]int{-100, -Pick(rng, []int{1, 5, 19})}
				run(c)
			}
			// 4b. the token itself
			for _, kind := range []string{"none", "garbage", "trunc", "ctype", "badinfo"} {
				c := valid(rng, false, n)
				c.Fam = "tsa:token " + kind
				withTSA(rng, c, "a")
				c.Tok.Kind = kind
				if rng.Bool() { // afterCertExpiry with an expired certificate behaves the same
					c.Opt = "afterCertExpiry"
					c.Win[rng.Intn(n)][1] = -6
				}
				run(c)
			}
			for _, msg := range []string{"other", "version", "hashalg"} {
				c := valid(rng, false, n)
				c.Fam = "tsa:imprint " + msg
				withTSA(rng, c, Pick(rng, []string{"a", "b"}))
				c.Tok.Msg = msg
				run(c)
			}
			// 4c. the tsa stores
			storeSets := [][]string{
				{"tsa:missing"}, {"tsa:fail"}, {"tsa:a", "tsa:missing"}, {"tsa:fail", "tsa:a"},
				{"tsa:empty"}, {"tsa:empty", "tsa:empty"}, {"tsa:empty", "tsa:a"}, {"tsa:a", "tsa:empty"},
				{"tsa:b"}, {"tsa:b", "tsa:c"}, {"tsa:a", "tsa:a"}, {"tsa:b", "tsa:a"}, {"tsa:ab"}, {"tsa:bi"},
			}
			for _, ss := range storeSets {
				if !thorough && n >= 3 && rng.Chance(1, 2) {
					continue
				}
				c := valid(rng, false, n)
				c.Fam = "tsa:stores"
				withTSA(rng, c, "a", ss...)
				run(c)
			}
			// 4d. TSA certificates: untrusted, mis-purposed, expired at genTime, damaged signature
			for _, pk := range []string{"c", "e", "f", "g", "h", "k"} {
				c := valid(rng, false, n)
				c.Fam = "tsa:certificate " + pk
				withTSA(rng, c, pk)
				if pk == "e" {
					// TSA certificate valid from 20 h to 10 h ago: judged at genTime, not now
					c.Tok.GenH = -15
					c.Fam = "tsa:certificate e, valid at genTime only"
					run(c)
					c = valid(rng, false, n)
					c.Fam = "tsa:certificate e, not valid at genTime"
					withTSA(rng, c, pk)
					c.Tok.GenH = Pick(rng, []int{-5, -25})
				}
				run(c)
			}
			{
				c := valid(rng, false, n)
				c.Fam = "tsa:intermediate as anchor"
				withTSA(rng, c, "b", "tsa:bi")
				run(c)
				c = valid(rng, false, n)
				c.Fam = "tsa:damaged signature"
				withTSA(rng, c, Pick(rng, []string{"a", "b"}))
				c.Tok.BadSig = true
				run(c)
			}
			// 4e. timestamp range against every certificate window
			for k := 0; k < n; k++ {
				type ed struct {
					name        string
					nb, na      int
					gen, acc    int
					baselineOID bool
				}
				edits := []ed{
					{"tsa:timestamp before notBefore", -10, 100, -20, 1, false},
					{"tsa:timestamp after notAfter", -100, -30, -20, 1, false},
					{"tsa:lower limit = notBefore", -21, 100, -20, hour, false},
					{"tsa:upper limit = notAfter", -100, -19, -20, hour, false},
					{"tsa:genTime inside, lower limit outside", -21, 100, -20, 2 * hour, false},
					{"tsa:genTime inside, upper limit outside", -100, -19, -20, 2 * hour, false},
					{"tsa:genTime = notBefore, accuracy 0", -20, 100, -20, 0, false},
					{"tsa:genTime = notAfter, accuracy 0", -100, -20, -20, 0, false},
					{"tsa:genTime = notBefore, baseline accuracy 1 s", -20, 100, -20, 0, true},
					{"tsa:genTime = notAfter, baseline accuracy 1 s", -100, -20, -20, 0, true},
					{"tsa:timestamp in the future, inside", -100, 100, 7, 1, false},
					{"tsa:not yet valid now, valid at future timestamp", 3, 100, 7, 1, false},
				}
				for _, e := range edits {
					if !thorough && n == 4 && rng.Chance(1, 2) {
						continue
					}
					c := valid(rng, false, n)
					c.Fam = e.name
					withTSA(rng, c, Pick(rng, []string{"a", "b"}))
					c.Win[k] = [2]int{e.nb, e.na}
					c.Tok.GenH, c.Tok.Acc, c.Tok.Baseline = e.gen, e.acc, e.baselineOID
					if e.na < 0 && rng.Bool() {
						c.Opt = "afterCertExpiry"
					}
					run(c)
				}
			}
			// 4f. revocation of the TSA chain
			for _, pk := range []string{"a", "b"} {
				m := 2
				if pk == "b" {
					m = 3
				}
				c := valid(rng, false, n)
				c.Fam = "tsa:revocation error"
				withTSA(rng, c, pk)
				c.Tok.RevErr = true
				run(c)
				total := 1
				for i := 0; i < m; i++ {
					total *= 5
				}
				for code := 0; code < total; code++ {
					if n != 2 && !thorough && !rng.Chance(1, 6) {
						continue
					}
					vec := make([]int, m)
					x := code
					for i := range vec {
						vec[i] = x % 5
						x /= 5
					}
					if m == 3 && !thorough && !rng.Chance(1, 3) {
						continue
					}
					c := valid(rng, false, n)
					c.Fam = "tsa:revocation vector"
					withTSA(rng, c, pk)
					c.Tok.Rev = vec
					run(c)
				}
			}
		}

		// ---- 5. afterCertExpiry: applies exactly when some certificate is past notAfter now
		for _, n := range chainLens {
			for _, tokKind := range []string{"none", "ok", "other"} {
				for _, state := range []string{"unexpired", "expired", "notyet", "expired+notyet"} {
					for _, opt := range c06Opts {
						if !thorough && rng.Chance(1, 3) {
							continue
						}
						c := valid(rng, false, n)
						c.Fam = "option:" + state
						withTSA(rng, c, "a")
						c.Opt = opt
						switch tokKind {
						case "none":
							c.Tok.Kind = "none"
						case "other":
							c.Tok.Msg = "other"
						}
						switch state {
						case "expired":
							c.Win[rng.Intn(n)] = [2]int{-100, -5}
						case "notyet":
							c.Win[rng.Intn(n)] = [2]int{5, 100}
						case "expired+notyet":
							c.Win[rng.Intn(n)] = [2]int{5, 100}
							c.Win[rng.Intn(n)] = [2]int{-100, -5}
						}
						if rng.Chance(1, 4) {
							c.Stores = schemeStores(rng, false, nil) // no tsa store at all
						}
						run(c)
					}
				}
			}
		}
	}

	// ---- 6. random mixture
	extra := 250
	if thorough {
		extra = 30000
	}
	hours := []int{-90, -60, -31, -30, -29, -21, -20, -19, -10, -6, -5, -4, -1, 1, 4, 5, 6, 10, 30, 90}
	for i := 0; i < extra; i++ {
		n := 1 + rng.Intn(4)
		c := valid(rng, rng.Chance(1, 3), n)
		c.Fam = "random"
		c.SigH = Pick(rng, []int{-30, -20, -5, 5})
		for k := 0; k < n; k++ {
			if rng.Chance(1, 3) {
				x, y := Pick(rng, hours), Pick(rng, hours)
				if x > y {
					x, y = y, x
				}
				if x == y {
					y = x + 1
				}
				if y == 0 {
					y = 1
				}
				c.Win[k] = [2]int{x, y}
			}
		}
		if rng.Chance(1, 3) {
			e := c.SigH + Pick(rng, []int{1, 2, 10, 26, 40})
			if e == 0 {
				e = 1
			}
			c.ExpH = ip(e)
		}
		if rng.Chance(2, 3) {
			var tsa []string
			for j := 0; j <= rng.Intn(3); j++ {
				tsa = append(tsa, "tsa:"+Pick(rng, []string{"a", "a", "a", "b", "ab", "empty", "missing", "bi", "c", "d", "e"}))
			}
			c.Stores = schemeStores(rng, c.SA, tsa)
			c.Tok = tokDesc{Kind: Pick(rng, []string{"ok", "ok", "ok", "ok", "none", "garbage", "badinfo"}), Msg: Pick(rng, []string{"sig", "sig", "sig", "sig", "other"}),
				PKI: Pick(rng, []string{"a", "a", "a", "b", "b", "c", "d", "e"}), GenH: Pick(rng, []int{-25, -20, -15, -5, 5}), Acc: Pick(rng, []int{0, 1, 1, hour, 2 * hour}),
				Baseline: rng.Chance(1, 4), BadSig: rng.Chance(1, 12), RevErr: rng.Chance(1, 12)}
			if rng.Chance(1, 3) {
				c.Tok.Rev = []int{rng.Intn(5), rng.Intn(5), rng.Intn(5)}
				if rng.Chance(2, 3) { // mostly OK so that single deviations are common
					c.Tok.Rev[rng.Intn(3)] = 0
					c.Tok.Rev[rng.Intn(3)] = 1
				}
			}
			if rng.Chance(1, 10) {
				c.Tok.RevShort = 1
			}
		}
		run(c)
	}
}
