package main

// Case generators of the C06 driver. Every family starts from a case on which
// both validations pass and applies one edit that violates (or sits on the
// edge of) one rule of the property.

import (
	"fmt"
	"strings"
	. "vh/kit"

	"github.com/notaryproject/notation-go"
)

func ip(x int) *int { return &x }

var (
	c06Formats = []string{MtJWS, MtCOSE}
	c06Levels  = []string{"strict", "permissive", "audit"}
	c06Actions = []string{"Enforce", "Log"}
	c06Opts    = []string{"", "always", "afterCertExpiry"}
)

// valid returns a case on which expiry and authentic timestamp pass:
// every certificate valid from long before to long after now and the signing
// time, no expiry, no tsa store.
func valid(rng *Rng, sa bool, n int) *c06Case {
	c := &c06Case{Fam: "valid", Format: Pick(rng, c06Formats), SA: sa, SigH: -2, Level: Pick(rng, c06Levels),
		AExp: Pick(rng, c06Actions), ATs: Pick(rng, c06Actions), Opt: Pick(rng, c06Opts)}
	for i := 0; i < n; i++ {
		c.Win = append(c.Win, [2]int{-Pick(rng, []int{200, 100, 60}), Pick(rng, []int{60, 100, 200})})
	}
	c.Stores = schemeStores(rng, sa, nil)
	c.Tok = tokDesc{Kind: "none", Msg: "sig", PKI: "a"}
	c.Anchor = rng.Intn(3) // which certificate of the chain the scheme's store holds: no verdict here may depend on it
	return c
}

// storesAt puts the scheme's own store at position pos among the tsa entries.
func storesAt(sa bool, tsa []string, pos int) []string {
	own := "ca:s"
	if sa {
		own = "signingAuthority:s"
	}
	out := append([]string{}, tsa[:pos]...)
	out = append(out, own)
	return append(out, tsa[pos:]...)
}

// insertAt returns xs with x inserted at position pos.
func insertAt(xs []string, x string, pos int) []string {
	out := append([]string{}, xs[:pos]...)
	out = append(out, x)
	return append(out, xs[pos:]...)
}

// schemeStores builds the trustStores list: the store that makes the signing
// chain authentic plus the given tsa entries, in a random arrangement.
func schemeStores(rng *Rng, sa bool, tsa []string) []string {
	own := "ca:s"
	if sa {
		own = "signingAuthority:s"
	}
	out := []string{}
	pos := rng.Intn(len(tsa) + 1)
	for i, t := range tsa {
		if i == pos {
			out = append(out, own)
		}
		out = append(out, t)
	}
	if pos == len(tsa) {
		out = append(out, own)
	}
	if rng.Chance(1, 5) {
		// a store of the other scheme's type is ignored by everything here
		if sa {
			out = append(out, "ca:s")
		} else {
			out = append(out, "signingAuthority:s")
		}
	}
	return out
}

// withTSA turns a valid notary.x509 case into one where timestamp
// verification applies and passes: tsa store of PKI a, option unset/always,
// token issued 20 h ago with 1 s accuracy.
func withTSA(rng *Rng, c *c06Case, pki string, stores ...string) {
	if len(stores) == 0 {
		stores = []string{"tsa:" + pki}
	}
	c.Stores = schemeStores(rng, c.SA, stores)
	c.Opt = Pick(rng, []string{"", "always"})
	c.Tok = tokDesc{Kind: "ok", Msg: "sig", PKI: pki, GenH: -20, Acc: 1}
}

func generate(a *Args, rng *Rng, run func(*c06Case), runSeq func([]*c06Case)) {
	thorough := a.Tier == "thorough"
	reps := 1
	if thorough {
		reps = 6
	}
	chainLens := []int{1, 2, 3, 4}
	for rep := 0; rep < reps; rep++ {
		// ---- 0. all valid
		for _, sa := range []bool{false, true} {
			for _, n := range chainLens {
				run(valid(rng, sa, n))
			}
		}

		// ---- 1. expiry against now (never against the signing time)
		for _, sa := range []bool{false, true} {
			for _, e := range []int{-40, -20, -3, -2, -1, 1, 2, 5, 30} {
				for _, aexp := range c06Actions {
					c := valid(rng, sa, 1+rng.Intn(3))
					c.Fam = "expiry"
					c.AExp = aexp
					c.ExpH = ip(e)
					c.SigH = e - Pick(rng, []int{1, 5, 50}) // expiry is always after the signing time (envelope rule)
					if c.SigH < -55 {
						c.SigH = -55
					}
					run(c)
				}
			}
		}

		// ---- 2. signingAuthority: every certificate against the signing time
		for _, n := range chainLens {
			for k := 0; k < n; k++ {
				for _, sig := range []int{-30, -5, 5} {
					edits := []struct {
						name   string
						nb, na int
					}{
						{"sa:notBefore after signing time", sig + Pick(rng, []int{1, 3, 20}), 100},
						{"sa:notAfter before signing time", -100, sig - Pick(rng, []int{1, 3, 20})},
						{"sa:notBefore = signing time", sig, 100},
						{"sa:notAfter = signing time", -100, sig},
						{"sa:valid at signing time, other side of now", -100, sig + 2}, // sig<0: expired now; sig>0: fine
						{"sa:starts just before signing time", sig - 1, 100},           // sig>0: not yet valid now
					}
					for _, e := range edits {
						if !thorough && n == 4 && rng.Chance(1, 2) {
							continue
						}
						c := valid(rng, true, n)
						c.Fam = e.name
						c.SigH = sig
						c.Win[k] = [2]int{e.nb, e.na}
						if rng.Chance(1, 3) {
							// tsa stores and tokens are irrelevant under signingAuthority
							c.Stores = schemeStores(rng, true, []string{Pick(rng, []string{"tsa:a", "tsa:missing", "tsa:empty"})})
						}
						run(c)
					}
				}
			}
			// two violating certificates: the first in chain order is named
			if n >= 2 {
				c := valid(rng, true, n)
				c.Fam = "sa:two certificates"
				c.SigH = -5
				i, j := rng.Intn(n), rng.Intn(n)
				c.Win[i] = [2]int{-3, 100}
				c.Win[j] = [2]int{-100, -8}
				run(c)
			}
		}

		// ---- 3. notary.x509 without timestamp verification: every certificate against now
		for _, n := range chainLens {
			for k := 0; k < n; k++ {
				for _, sig := range []int{-30, -5} {
					edits := []struct {
						name   string
						nb, na int
					}{
						{"x509:expired now, valid at signing time", -100, Pick(rng, []int{-1, -3, sig + 2})},
						{"x509:not yet valid now", Pick(rng, []int{1, 3, 40}), 100},
						{"x509:valid now, not yet valid at signing time", sig + 2, 100},
						{"x509:expired long before signing time", -100, sig - 10},
					}
					for _, e := range edits {
						for _, mode := range []int{0, 1} { // 0: no tsa store; 1: tsa store + afterCertExpiry (applies only if expired)
							if !thorough && n >= 3 && rng.Chance(1, 2) {
								continue
							}
							c := valid(rng, false, n)
							c.Fam = e.name
							c.SigH = sig
							c.Win[k] = [2]int{e.nb, e.na}
							if mode == 1 {
								c.Fam += " (tsa store, afterCertExpiry)"
								c.Stores = schemeStores(rng, false, []string{"tsa:a"})
								c.Opt = "afterCertExpiry"
								if rng.Bool() {
									c.Tok = tokDesc{Kind: "ok", Msg: "sig", PKI: "a", GenH: sig - 1, Acc: 1}
								}
							}
							run(c)
						}
					}
				}
			}
			if n >= 2 {
				c := valid(rng, false, n)
				c.Fam = "x509:two certificates"
				i, j := rng.Intn(n), rng.Intn(n)
				c.Win[i] = [2]int{4, 100}
				c.Win[j] = [2]int{-100, -4}
				run(c)
			}
		}

		// ---- 4. notary.x509 with timestamp verification
		for _, n := range chainLens {
			// 4a. passes: chain valid now / a certificate expired now but valid at the timestamp
			for _, pk := range []string{"a", "b", "d"} {
				c := valid(rng, false, n)
				c.Fam = "tsa:passes"
				withTSA(rng, c, pk)
				run(c)
				c = valid(rng, false, n)
				c.Fam = "tsa:expired now, valid at timestamp"
				withTSA(rng, c, pk)
				c.Opt = Pick(rng, c06Opts)
				c.Win[rng.Intn(n)] = [2]int{-100, -Pick(rng, []int{1, 5, 19})}
				run(c)
			}
			// 4b. the token itself
			for _, kind := range []string{"none", "garbage", "trunc", "ctype", "badinfo"} {
				c := valid(rng, false, n)
				c.Fam = "tsa:token " + kind
				withTSA(rng, c, "a")
				c.Tok.Kind = kind
				if rng.Bool() { // afterCertExpiry with an expired certificate behaves the same
					c.Opt = "afterCertExpiry"
					c.Win[rng.Intn(n)][1] = -6
				}
				run(c)
			}
			for _, msg := range []string{"other", "version", "hashalg"} {
				c := valid(rng, false, n)
				c.Fam = "tsa:imprint " + msg
				withTSA(rng, c, Pick(rng, []string{"a", "b"}))
				c.Tok.Msg = msg
				run(c)
			}
			// 4c. the tsa stores
			storeSets := [][]string{
				{"tsa:missing"}, {"tsa:fail"}, {"tsa:a", "tsa:missing"}, {"tsa:fail", "tsa:a"},
				{"tsa:empty"}, {"tsa:empty", "tsa:empty"}, {"tsa:empty", "tsa:a"}, {"tsa:a", "tsa:empty"},
				{"tsa:b"}, {"tsa:b", "tsa:c"}, {"tsa:a", "tsa:a"}, {"tsa:b", "tsa:a"}, {"tsa:ab"}, {"tsa:bi"},
			}
			for _, ss := range storeSets {
				if !thorough && n >= 3 && rng.Chance(1, 2) {
					continue
				}
				c := valid(rng, false, n)
				c.Fam = "tsa:stores"
				withTSA(rng, c, "a", ss...)
				run(c)
			}
			// 4d. TSA certificates: untrusted, mis-purposed, expired at genTime, damaged signature
			for _, pk := range []string{"c", "e", "f", "g", "h", "k"} {
				c := valid(rng, false, n)
				c.Fam = "tsa:certificate " + pk
				withTSA(rng, c, pk)
				if pk == "e" {
					// TSA certificate valid from 20 h to 10 h ago: judged at genTime, not now
					c.Tok.GenH = -15
					c.Fam = "tsa:certificate e, valid at genTime only"
					run(c)
					c = valid(rng, false, n)
					c.Fam = "tsa:certificate e, not valid at genTime"
					withTSA(rng, c, pk)
					c.Tok.GenH = Pick(rng, []int{-5, -25})
				}
				run(c)
			}
			{
				c := valid(rng, false, n)
				c.Fam = "tsa:intermediate as anchor"
				withTSA(rng, c, "b", "tsa:bi")
				run(c)
				c = valid(rng, false, n)
				c.Fam = "tsa:damaged signature"
				withTSA(rng, c, Pick(rng, []string{"a", "b"}))
				c.Tok.BadSig = true
				run(c)
			}
			// 4e. timestamp range against every certificate window
			for k := 0; k < n; k++ {
				type ed struct {
					name        string
					nb, na      int
					gen, acc    int
					baselineOID bool
				}
				edits := []ed{
					{"tsa:timestamp before notBefore", -10, 100, -20, 1, false},
					{"tsa:timestamp after notAfter", -100, -30, -20, 1, false},
					{"tsa:lower limit = notBefore", -21, 100, -20, hour, false},
					{"tsa:upper limit = notAfter", -100, -19, -20, hour, false},
					{"tsa:genTime inside, lower limit outside", -21, 100, -20, 2 * hour, false},
					{"tsa:genTime inside, upper limit outside", -100, -19, -20, 2 * hour, false},
					{"tsa:genTime = notBefore, accuracy 0", -20, 100, -20, 0, false},
					{"tsa:genTime = notAfter, accuracy 0", -100, -20, -20, 0, false},
					{"tsa:genTime = notBefore, baseline accuracy 1 s", -20, 100, -20, 0, true},
					{"tsa:genTime = notAfter, baseline accuracy 1 s", -100, -20, -20, 0, true},
					{"tsa:timestamp in the future, inside", -100, 100, 7, 1, false},
					{"tsa:not yet valid now, valid at future timestamp", 3, 100, 7, 1, false},
				}
				for _, e := range edits {
					if !thorough && n == 4 && rng.Chance(1, 2) {
						continue
					}
					c := valid(rng, false, n)
					c.Fam = e.name
					withTSA(rng, c, Pick(rng, []string{"a", "b"}))
					c.Win[k] = [2]int{e.nb, e.na}
					c.Tok.GenH, c.Tok.Acc, c.Tok.Baseline = e.gen, e.acc, e.baselineOID
					if e.na < 0 && rng.Bool() {
						c.Opt = "afterCertExpiry"
					}
					run(c)
				}
			}
			// 4f. revocation of the TSA chain
			for _, pk := range []string{"a", "b"} {
				m := 2
				if pk == "b" {
					m = 3
				}
				c := valid(rng, false, n)
				c.Fam = "tsa:revocation error"
				withTSA(rng, c, pk)
				c.Tok.RevErr = true
				run(c)
				total := 1
				for i := 0; i < m; i++ {
					total *= 5
				}
				for code := 0; code < total; code++ {
					if n != 2 && !thorough && !rng.Chance(1, 6) {
						continue
					}
					vec := make([]int, m)
					x := code
					for i := range vec {
						vec[i] = x % 5
						x /= 5
					}
					if m == 3 && !thorough && !rng.Chance(1, 3) {
						continue
					}
					c := valid(rng, false, n)
					c.Fam = "tsa:revocation vector"
					withTSA(rng, c, pk)
					c.Tok.Rev = vec
					run(c)
				}
			}
		}

		// ---- 5. afterCertExpiry: applies exactly when some certificate is past notAfter now
		for _, n := range chainLens {
			for _, tokKind := range []string{"none", "ok", "other"} {
				for _, state := range []string{"unexpired", "expired", "notyet", "expired+notyet"} {
					for _, opt := range c06Opts {
						if !thorough && rng.Chance(1, 3) {
							continue
						}
						c := valid(rng, false, n)
						c.Fam = "option:" + state
						withTSA(rng, c, "a")
						c.Opt = opt
						switch tokKind {
						case "none":
							c.Tok.Kind = "none"
						case "other":
							c.Tok.Msg = "other"
						}
						switch state {
						case "expired":
							c.Win[rng.Intn(n)] = [2]int{-100, -5}
						case "notyet":
							c.Win[rng.Intn(n)] = [2]int{5, 100}
						case "expired+notyet":
							c.Win[rng.Intn(n)] = [2]int{5, 100}
							c.Win[rng.Intn(n)] = [2]int{-100, -5}
						}
						if rng.Chance(1, 4) {
							c.Stores = schemeStores(rng, false, nil) // no tsa store at all
						}
						run(c)
					}
				}
			}
		}
	}

	for rep := 0; rep < reps; rep++ {
		// ---- 7. nested windows, independent per chain position, for each of the three clocks.
		// Certificate at depth d has the window [C-(10+5d), C+(10+5d)] hours; depth grows from the leaf
		// (usual PKI: the leaf is innermost) or from the root (a root / intermediate issued later and
		// expiring earlier than the leaf). The clock is placed inside all windows, in the gap where exactly
		// the innermost certificate is expired / not yet valid, in the next gap, and outside all of them.
		for _, n := range []int{2, 3, 4} {
			for _, rootInner := range []bool{false, true} {
				for _, clock := range []string{"now", "sa", "tsa"} {
					outer := 10 + 5*(n-1)
					for _, delta := range []int{0, 12, -12, 17, -17, outer + 3, -(outer + 3)} {
						if n == 2 && (delta == 17 || delta == -17) {
							continue
						}
						if !thorough && (delta == 17 || delta == -17) && rng.Chance(1, 2) {
							continue
						}
						var center int // hours from now of the common centre of the windows
						c := valid(rng, clock == "sa", n)
						c.Fam = "nested:" + clock
						if rootInner {
							c.Fam += " root innermost"
						} else {
							c.Fam += " leaf innermost"
						}
						switch clock {
						case "now":
							center = -delta
							c.Opt = Pick(rng, []string{"", "always"}) // no tsa store: the option is irrelevant
						case "sa":
							center = -40
							c.SigH = center + delta
						case "tsa":
							center = -40
							withTSA(rng, c, Pick(rng, []string{"a", "b"}))
							c.Opt = Pick(rng, c06Opts) // every certificate is past notAfter now: afterCertExpiry applies too
							c.Tok.GenH = center + delta
						}
						for k := 0; k < n; k++ {
							d := k
							if rootInner {
								d = n - 1 - k
							}
							c.Win[k] = [2]int{center - (10 + 5*d), center + (10 + 5*d)}
						}
						c.Anchor = rng.Intn(3)
						run(c)
					}
				}
			}
		}

		// ---- 7b. exactly one certificate, at each position, expired / not yet valid at the reference time of each
		// clock, while every other certificate is valid in a window of its own
		for _, n := range chainLens {
			for k := 0; k < n; k++ {
				for _, clock := range []string{"now", "sa", "tsa"} {
					for _, kind := range []string{"expired", "not yet valid"} {
						ref := 0 // hours from now of the reference time
						c := valid(rng, clock == "sa", n)
						c.Fam = "single:" + clock + " " + kind
						switch clock {
						case "sa":
							ref = Pick(rng, []int{-40, 40})
							c.SigH = ref
						case "tsa":
							ref = Pick(rng, []int{-40, 40})
							withTSA(rng, c, Pick(rng, []string{"a", "b"}))
							c.Tok.GenH = ref
						}
						for j := 0; j < n; j++ {
							c.Win[j] = [2]int{ref - (7 + 3*j), ref + (9 + 2*((j+k)%n))}
						}
						if kind == "expired" {
							c.Win[k] = [2]int{ref - 30, ref - 2}
						} else {
							c.Win[k] = [2]int{ref + 2, ref + 30}
						}
						run(c)
					}
				}
			}
		}

		// ---- 7c. the full cross: a not-yet-valid / expired certificate at each chain position x tsa store listed or not
		// x verifyTimestamp {unset, always, afterCertExpiry} x countersignature absent / present. Whatever branch
		// the combination selects, a chain that is not valid at the selected clock must fail.
		for _, n := range chainLens {
			for k := 0; k < n; k++ {
				for _, kind := range []string{"not yet valid", "expired"} {
					for _, tsa := range []bool{false, true} {
						for _, opt := range c06Opts {
							for _, tok := range []bool{false, true} {
								c := valid(rng, false, n)
								c.Fam = "cross:" + kind
								if tsa {
									withTSA(rng, c, "a")
								}
								c.Opt = opt
								if tok {
									c.Tok = tokDesc{Kind: "ok", Msg: "sig", PKI: "a", GenH: -20, Acc: 1}
								} else {
									c.Tok.Kind = "none"
								}
								if kind == "expired" {
									c.Win[k] = [2]int{-100, -Pick(rng, []int{2, 5, 30})} // -30: expired before the timestamp too
								} else {
									c.Win[k] = [2]int{Pick(rng, []int{2, 5, 30}), 100}
								}
								run(c)
							}
						}
					}
				}
			}
		}

		// ---- 8. the odd tsa store at every position of the trustStores list, the scheme's own store at every position
		for _, odd := range []string{"tsa:missing", "tsa:fail", "tsa:empty", "tsa:b", "tsa:a", "tsa:T.s_A-1"} {
			for pos := 0; pos <= 2; pos++ {
				for own := 0; own <= 3; own++ {
					if !thorough && own == 2 {
						continue
					}
					c := valid(rng, false, 1+rng.Intn(3))
					c.Fam = "position:" + odd
					withTSA(rng, c, "a")
					c.Stores = storesAt(false, insertAt([]string{"tsa:a", "tsa:ab"}, odd, pos), own)
					run(c)
				}
			}
		}
		// a token of TSA b when its root is listed first / middle / last among roots that do not fit
		for pos := 0; pos <= 2; pos++ {
			c := valid(rng, false, 1+rng.Intn(3))
			c.Fam = "position:matching root"
			withTSA(rng, c, "b")
			c.Stores = storesAt(false, insertAt([]string{"tsa:a", "tsa:c"}, "tsa:b", pos), rng.Intn(4))
			run(c)
		}

		// ---- 9. empty vs absent: a zero-length countersignature header, a validator that answers nothing
		for _, f := range c06Formats {
			for _, opt := range c06Opts {
				c := valid(rng, false, 1+rng.Intn(3))
				c.Fam = "empty:zero-length token"
				withTSA(rng, c, "a")
				c.Format, c.Opt = f, opt
				c.Tok.Kind = "empty"
				if opt == "afterCertExpiry" && rng.Bool() {
					c.Win[0] = [2]int{-100, -5}
				}
				run(c)
			}
			c := valid(rng, false, 2)
			c.Fam = "empty:validator answers with no result"
			withTSA(rng, c, "a")
			c.Format = f
			c.Tok.Rev = []int{3, 3}
			c.Tok.RevShort = 2
			run(c)
		}

		// ---- 9b. shape of the timestamping revocation validator's answer (checkRevocationResults): fewer / more
		// results than TSA certificates (TSA a: 2 certificates, TSA b: 3), a nil entry at every position, alone and
		// next to a revoked / unknown result on either side; a revoked result cut off by a short answer
		for _, f := range c06Formats {
			for _, pk := range []string{"a", "b"} {
				m := 2
				if pk == "b" {
					m = 3
				}
				shape := func(fam string, edit func(c *c06Case)) {
					c := valid(rng, false, 1+rng.Intn(3))
					c.Fam = fam
					withTSA(rng, c, pk)
					c.Format = f
					if rng.Chance(1, 3) {
						c.Opt = "afterCertExpiry"
						c.Win[0] = [2]int{-100, -5}
					}
					edit(c)
					run(c)
				}
				for short := 1; short <= m; short++ {
					short := short
					shape("shape:short answer", func(c *c06Case) { c.Tok.RevShort = short })
					// the result that is cut off was "revoked" / "unknown"
					for _, bad := range []int{3, 2} {
						vec := make([]int, m)
						vec[m-short] = bad
						shape("shape:short answer hides a bad result", func(c *c06Case) { c.Tok.Rev, c.Tok.RevShort = vec, short })
					}
				}
				for long := 1; long <= 2; long++ {
					long := long
					shape("shape:long answer", func(c *c06Case) { c.Tok.RevLong = long })
					shape("shape:long answer with a revoked result", func(c *c06Case) {
						vec := make([]int, m)
						vec[rng.Intn(m)] = 3
						c.Tok.Rev, c.Tok.RevLong = vec, long
					})
				}
				for pos := 0; pos < m; pos++ {
					pos := pos
					shape("shape:nil entry", func(c *c06Case) {
						vec := make([]int, m)
						vec[pos] = 5
						c.Tok.Rev = vec
					})
					for other := 0; other < m; other++ {
						if other == pos {
							continue
						}
						for _, bad := range []int{3, 2, 1} {
							vec := make([]int, m)
							vec[pos], vec[other] = 5, bad
							shape("shape:nil entry next to another verdict", func(c *c06Case) { c.Tok.Rev = vec })
						}
					}
				}
				shape("shape:all entries nil", func(c *c06Case) {
					vec := make([]int, m)
					for i := range vec {
						vec[i] = 5
					}
					c.Tok.Rev = vec
				})
				shape("shape:nil entry in a short answer", func(c *c06Case) {
					vec := make([]int, m)
					vec[0] = 5
					c.Tok.Rev, c.Tok.RevShort = vec, 1
				})
			}
		}

		// ---- 10. histories: ONE verifier instance, several calls whose expected verdict changes
		histories(rng, runSeq, thorough)
		namespaces(rng, runSeq, thorough)
	}

	// ---- 6. random mixture
	extra := 250
	if thorough {
		extra = 30000
	}
	hours := []int{-90, -60, -31, -30, -29, -21, -20, -19, -10, -6, -5, -4, -1, 1, 4, 5, 6, 10, 30, 90}
	for i := 0; i < extra; i++ {
		n := 1 + rng.Intn(4)
		c := valid(rng, rng.Chance(1, 3), n)
		c.Fam = "random"
		c.SigH = Pick(rng, []int{-30, -20, -5, 5})
		for k := 0; k < n; k++ {
			if rng.Chance(1, 3) {
				x, y := Pick(rng, hours), Pick(rng, hours)
				if x > y {
					x, y = y, x
				}
				if x == y {
					y = x + 1
				}
				if y == 0 {
					y = 1
				}
				c.Win[k] = [2]int{x, y}
			}
		}
		if rng.Chance(1, 3) {
			e := c.SigH + Pick(rng, []int{1, 2, 10, 26, 40})
			if e == 0 {
				e = 1
			}
			c.ExpH = ip(e)
		}
		if rng.Chance(2, 3) {
			var tsa []string
			for j := 0; j <= rng.Intn(3); j++ {
				tsa = append(tsa, "tsa:"+Pick(rng, []string{"a", "a", "a", "b", "ab", "empty", "missing", "bi", "c", "d", "e"}))
			}
			c.Stores = schemeStores(rng, c.SA, tsa)
			c.Tok = tokDesc{Kind: Pick(rng, []string{"ok", "ok", "ok", "ok", "none", "garbage", "badinfo"}), Msg: Pick(rng, []string{"sig", "sig", "sig", "sig", "other"}),
				PKI: Pick(rng, []string{"a", "a", "a", "b", "b", "c", "d", "e"}), GenH: Pick(rng, []int{-25, -20, -15, -5, 5}), Acc: Pick(rng, []int{0, 1, 1, hour, 2 * hour}),
				Baseline: rng.Chance(1, 4), BadSig: rng.Chance(1, 12), RevErr: rng.Chance(1, 12)}
			if rng.Chance(1, 3) {
				c.Tok.Rev = []int{rng.Intn(5), rng.Intn(5), rng.Intn(5)}
				if rng.Chance(2, 3) { // mostly OK so that single deviations are common
					c.Tok.Rev[rng.Intn(3)] = 0
					c.Tok.Rev[rng.Intn(3)] = 1
				}
			}
			if rng.Chance(1, 10) {
				c.Tok.RevShort = 1
			}
		}
		run(c)
	}
	realStore(rng, run, runSeq)
}

// realStore drives the REAL trust store object (truststore.NewX509TrustStore on a directory tree written by the
// driver) instead of the scripted one: a ca store and a tsa store with the SAME name and different content (HOWTO
// lesson 8: one name in two namespaces). processSignature loads the ca store (authenticity) before verifyTimestamp
// loads the tsa store through the same object; the TSA must chain to what truststore/x509/tsa/<name> holds, never to
// what the equally named ca store holds.
func realStore(rng *Rng, run func(*c06Case), runSeq func([]*c06Case)) {
	mk := func(fam string, stores []string, opt string, fs *fsDesc, pki string) *c06Case {
		c := valid(rng, false, 2)
		c.Fam, c.Stores, c.Opt, c.FS, c.Anchor = fam, stores, opt, fs, 0
		c.Tok = tokDesc{Kind: "ok", Msg: "sig", PKI: pki, GenH: -20, Acc: 1}
		if opt == "afterCertExpiry" {
			c.Win[0] = [2]int{-100, -5} // expired leaf: timestamp verification applies
		}
		return c
	}
	layouts := []struct {
		what    string
		ca, tsa []string // content of ca/<n> besides the anchor, of tsa/<n> (nil = no directory)
	}{
		{"TSA root only in tsa store", nil, []string{"a"}},
		{"TSA root only in ca store", []string{"a"}, []string{"b"}},
		{"TSA root in both", []string{"a"}, []string{"a"}},
		{"TSA root in neither", nil, []string{"b"}},
		{"TSA root only in ca store, tsa store has no directory", []string{"a"}, nil},
	}
	layout := func(caName, tsaName string, ca, tsa []string) *fsDesc {
		f := &fsDesc{CA: map[string][]string{caName: append([]string{"anchor"}, ca...)}, TSA: map[string][]string{}}
		if tsa != nil {
			f.TSA[tsaName] = tsa
		}
		return f
	}
	for _, l := range layouts {
		for _, caFirst := range []bool{true, false} {
			for _, opt := range c06Opts {
				stores := []string{"ca:acme", "tsa:acme"}
				if !caFirst {
					stores = []string{"tsa:acme", "ca:acme"}
				}
				run(mk("realstore:same name under ca and tsa, "+l.what, stores, opt, layout("acme", "acme", l.ca, l.tsa), "a"))
			}
		}
		// control: different names
		run(mk("realstore:different names, "+l.what, []string{"ca:s1", "tsa:t1"}, Pick(rng, c06Opts), layout("s1", "t1", l.ca, l.tsa), "a"))
	}
	// ONE verifier and ONE store object, two verifications, both orders: the token of TSA A must fail and the token of
	// TSA B must pass when tsa/acme holds B's root and ca/acme holds A's root
	for _, order := range [][]string{{"a", "b"}, {"b", "a"}, {"a", "a"}} {
		for _, opt := range []string{"always", "afterCertExpiry"} {
			sess := &session{rv: &tsRev{}}
			var cs []*c06Case
			for i, p := range order {
				c := mk("history:realstore same name", []string{"ca:acme", "tsa:acme"}, opt, layout("acme", "acme", []string{"a"}, []string{"b"}), p)
				c.Hist = fmt.Sprintf("realstore %s#%d", strings.Join(order, ""), i+1)
				c.Level, c.AExp, c.ATs = "strict", "Enforce", "Enforce"
				c.sess = sess
				cs = append(cs, c)
			}
			runSeq(cs)
		}
	}
}

// histories runs sequences of calls on one verifier instance (same policy,
// trust store object and revocation validator): whatever an earlier call
// computed (expired flag, loaded TSA roots, a verdict) must not leak into the
// next. Every step is emitted as its own case, judged on its own input.
func histories(rng *Rng, runSeq func([]*c06Case), thorough bool) {
	type step func(c *c06Case)
	seq := func(name string, sa []bool, stores []string, opt string, steps []step) {
		for _, acts := range [][2]string{{"Log", "Log"}, {"Enforce", "Enforce"}} {
			if !thorough && acts[0] == "Enforce" && rng.Chance(1, 2) {
				continue
			}
			sess := &session{rv: &tsRev{}}
			if acts[0] == "Log" {
				// these histories hand the very same options object (and its maps) to every step
				sess.opts = &notation.VerifierVerifyOptions{PluginConfig: map[string]string{"cfg": "1", "other": "2"}, UserMetadata: map[string]string{"io.verif/c06": "frame"}}
			}
			level := Pick(rng, c06Levels)
			var cs []*c06Case
			for i, st := range steps {
				isSA := sa[i%len(sa)]
				c := valid(rng, isSA, 1+rng.Intn(3))
				c.Fam = "history:" + name
				c.Hist = name + "#" + string(rune('1'+i))
				c.Stores, c.Opt, c.Level, c.AExp, c.ATs = stores, opt, level, acts[0], acts[1]
				c.sess = sess
				st(c)
				cs = append(cs, c)
			}
			runSeq(cs)
		}
	}
	x := []bool{false}
	okTok := func(c *c06Case, pki string) { c.Tok = tokDesc{Kind: "ok", Msg: "sig", PKI: pki, GenH: -20, Acc: 1} }
	none := func(c *c06Case) {}
	expLeaf := func(c *c06Case) { c.Win[0] = [2]int{-100, -5} }
	// the 'expired' decision of afterCertExpiry
	seq("afterCertExpiry", x, []string{"ca:s", "tsa:a"}, "afterCertExpiry", []step{
		none, expLeaf, func(c *c06Case) { expLeaf(c); okTok(c, "a") }, none,
		func(c *c06Case) { c.Win[len(c.Win)-1] = [2]int{-100, -5} }, func(c *c06Case) { okTok(c, "a") },
	})
	// the tsa roots: the store changes between calls
	seq("tsa roots", x, []string{"tsa:dyn", "ca:s"}, "always", []step{
		func(c *c06Case) { c.Dyn = "a"; okTok(c, "a") },
		func(c *c06Case) { c.Dyn = "b"; okTok(c, "a") },
		func(c *c06Case) { c.Dyn = "fail"; okTok(c, "a") },
		func(c *c06Case) { c.Dyn = "a"; okTok(c, "a") },
		func(c *c06Case) { c.Dyn = "empty"; okTok(c, "a") },
		func(c *c06Case) { c.Dyn = "b"; okTok(c, "b") },
	})
	// the chain against now
	seq("now", x, []string{"ca:s"}, "", []step{
		none, expLeaf, none, func(c *c06Case) { c.Win[len(c.Win)-1] = [2]int{5, 100} }, none,
	})
	// expiry
	seq("expiry", []bool{false, true}, []string{"signingAuthority:s", "ca:s"}, "", []step{
		none, func(c *c06Case) { c.ExpH, c.SigH = ip(-3), -10 }, func(c *c06Case) { c.ExpH = ip(7) },
		func(c *c06Case) { c.ExpH, c.SigH = ip(-1), -2 }, none,
	})
	// signing authority
	seq("signing time", []bool{true}, []string{"signingAuthority:s"}, "", []step{
		none, func(c *c06Case) { c.SigH = -30; c.Win[0] = [2]int{-20, 100} },
		func(c *c06Case) { c.SigH = -30; c.Win[0] = [2]int{-100, -10} }, // expired now, valid then
		func(c *c06Case) { c.SigH = -30; c.Win[len(c.Win)-1] = [2]int{-100, -40} }, none,
	})
	// both schemes through one verifier
	seq("schemes", []bool{false, true}, []string{"ca:s", "tsa:a", "signingAuthority:s"}, "always", []step{
		func(c *c06Case) { okTok(c, "a") }, none, none /* x509 without token */, func(c *c06Case) { c.SigH = -30; c.Win[0] = [2]int{-20, 100} },
		func(c *c06Case) { okTok(c, "a"); expLeaf(c) }, func(c *c06Case) { c.SigH = -30; expLeaf(c) }, /* SA: expired now, valid at signing time */
	})
	// revocation verdicts of the TSA chain
	seq("tsa revocation", x, []string{"ca:s", "tsa:a"}, "", []step{
		func(c *c06Case) { okTok(c, "a") },
		func(c *c06Case) { okTok(c, "a"); c.Tok.Rev = []int{3, 0} },
		func(c *c06Case) { okTok(c, "a") },
		func(c *c06Case) { okTok(c, "a"); c.Tok.RevErr = true },
		func(c *c06Case) { okTok(c, "a"); c.Tok.Rev = []int{0, 2} },
		func(c *c06Case) { okTok(c, "a") },
	})
	// the shape of the validator's answer
	seq("tsa revocation answer shape", x, []string{"ca:s", "tsa:a"}, "", []step{
		func(c *c06Case) { okTok(c, "a") },
		func(c *c06Case) { okTok(c, "a"); c.Tok.RevShort = 1 },
		func(c *c06Case) { okTok(c, "a") },
		func(c *c06Case) { okTok(c, "a"); c.Tok.Rev = []int{0, 5} },
		func(c *c06Case) { okTok(c, "a"); c.Tok.RevLong = 1 },
		func(c *c06Case) { okTok(c, "a") },
	})
	// the message the token is about: a genuine token moved to another envelope
	seq("token replay", x, []string{"ca:s", "tsa:a"}, "always", []step{
		func(c *c06Case) { okTok(c, "a"); c.Tok.Msg = "other" },
		func(c *c06Case) { okTok(c, "a") },
		func(c *c06Case) { c.Tok.Kind = "replayed" },
		func(c *c06Case) { okTok(c, "a") },
		func(c *c06Case) { c.Tok.Kind = "none" },
	})
	// the timestamp range against the windows
	seq("timestamp range", x, []string{"ca:s", "tsa:b"}, "always", []step{
		func(c *c06Case) { okTok(c, "b") },
		func(c *c06Case) { okTok(c, "b"); c.Win[0] = [2]int{-10, 100} },
		func(c *c06Case) { okTok(c, "b"); c.Win[0] = [2]int{-100, -19} }, // expired now, token inside
		func(c *c06Case) { okTok(c, "b"); c.Win[len(c.Win)-1] = [2]int{-100, -30} },
		func(c *c06Case) { okTok(c, "b") },
	})
}

// namespaces: ONE verifier holding an OCI and a blob document whose statements have the same names (p, q) but differ
// in exactly what this property is about (tsa store listed or not and which, verifyTimestamp, actions of expiry and
// authenticTimestamp); Verify and VerifyBlob (and the two OCI / two blob statements) are alternated on it, each
// step judged by the stateless model on the statement that applies to its entry point.
func namespaces(rng *Rng, runSeq func([]*c06Case), thorough bool) {
	both := []string{"ca:s", "signingAuthority:s"}
	st := func(tsa []string, opt, level, aexp, ats string) *c06Case {
		stores := append([]string{}, both...)
		pos := rng.Intn(len(stores) + 1)
		for _, t := range tsa {
			stores = insertAt(stores, t, pos)
		}
		return &c06Case{Stores: stores, Opt: opt, Level: level, AExp: aexp, ATs: ats}
	}
	layouts := []map[string]*c06Case{
		{ // OCI p demands a timestamp, blob p does not; q the other way round, with another TSA
			"oci:p":  st([]string{"tsa:a"}, "always", "strict", "Enforce", "Enforce"),
			"blob:p": st(nil, "", "permissive", "Log", "Log"),
			"oci:q":  st(nil, "afterCertExpiry", "audit", "Log", "Enforce"),
			"blob:q": st([]string{"tsa:b"}, "", "strict", "Enforce", "Log"),
		},
		{ // same stores, different option and actions
			"oci:p":  st([]string{"tsa:a"}, "afterCertExpiry", "permissive", "Log", "Log"),
			"blob:p": st([]string{"tsa:a"}, "always", "strict", "Enforce", "Enforce"),
			"oci:q":  st([]string{"tsa:b"}, "", "strict", "Log", "Enforce"),
			"blob:q": st([]string{"tsa:a", "tsa:b"}, "afterCertExpiry", "audit", "Enforce", "Log"),
		},
	}
	orders := [][]string{
		{"oci:p", "blob:p"}, {"blob:p", "oci:p"}, {"oci:p", "blob:p", "oci:p"}, {"blob:p", "oci:p", "blob:p"},
		{"oci:p", "oci:q", "oci:p", "oci:q"}, {"blob:q", "blob:p", "blob:q"}, {"oci:q", "blob:q", "oci:p", "blob:p", "oci:q"},
	}
	envs := []func(c *c06Case){
		func(c *c06Case) {}, // valid now, no token
		func(c *c06Case) { c.Tok = tokDesc{Kind: "ok", Msg: "sig", PKI: "a", GenH: -20, Acc: 1} },
		func(c *c06Case) {
			c.Win[0] = [2]int{-100, -5}
			c.Tok = tokDesc{Kind: "ok", Msg: "sig", PKI: "a", GenH: -20, Acc: 1}
		},
		func(c *c06Case) { c.Win[0] = [2]int{-100, -5} },
		func(c *c06Case) { c.Win[len(c.Win)-1] = [2]int{5, 100} },
		func(c *c06Case) { c.ExpH, c.SigH = ip(-3), -10 },
		func(c *c06Case) {
			c.Win[0] = [2]int{-100, -5}
			c.Tok = tokDesc{Kind: "ok", Msg: "sig", PKI: "b", GenH: -20, Acc: 1}
		},
	}
	for li, layout := range layouts {
		for oi, order := range orders {
			// every step of one history presents the same kind of envelope, so that only the statement differs
			kinds := []int{(li + oi) % len(envs), (li + oi + 3) % len(envs)}
			if thorough {
				kinds = []int{0, 1, 2, 3, 4, 5, 6}
			}
			for _, kind := range kinds {
				sess := &session{rv: &tsRev{}, stmts: layout}
				if rng.Bool() {
					sess.opts = &notation.VerifierVerifyOptions{PluginConfig: map[string]string{"cfg": "1"}, UserMetadata: map[string]string{"io.verif/c06": "frame"}}
				}
				var cs []*c06Case
				for i, entry := range order {
					c := valid(rng, false, 1+rng.Intn(3))
					c.Fam = "namespace:" + strings.Join(order, ",")
					c.Hist = fmt.Sprintf("ns%d.%d.%d#%d", li, oi, kind, i+1)
					c.Entry = entry
					s := layout[entry]
					c.Stores, c.Opt, c.Level, c.AExp, c.ATs = s.Stores, s.Opt, s.Level, s.AExp, s.ATs
					c.sess = sess
					envs[kind](c)
					cs = append(cs, c)
				}
				runSeq(cs)
			}
		}
	}
}
