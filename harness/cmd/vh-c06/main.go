package main

// C06 driver: runs the real verifier.Verify on envelopes whose signing time,
// expiry, per-certificate validity windows and RFC 3161 countersignature are
// placed before / around / after the moment of verification, under policies
// with and without tsa stores x verifyTimestamp, and prints (input,
// observation) cases for C06_Model.

import (
	"context"
	"crypto/sha256"
	"crypto/x509"
	"encoding/base64"
	"encoding/json"
	"encoding/pem"
	"errors"
	"fmt"
	"os"
	"path/filepath"
	"sort"
	"strings"
	"time"
	. "vh/kit"

	"github.com/notaryproject/notation-core-go/revocation"
	revresult "github.com/notaryproject/notation-core-go/revocation/result"
	"github.com/notaryproject/notation-core-go/signature"
	nx509 "github.com/notaryproject/notation-core-go/x509"
	"github.com/notaryproject/notation-go"
	"github.com/notaryproject/notation-go/dir"
	"github.com/notaryproject/notation-go/verifier"
	"github.com/notaryproject/notation-go/verifier/trustpolicy"
	"github.com/notaryproject/notation-go/verifier/truststore"
	"github.com/notaryproject/tspclient-go"
	"github.com/opencontainers/go-digest"
	ocispec "github.com/opencontainers/image-spec/specs-go/v1"
	"github.com/veraison/go-cose"
)

func main() { Main("c06", runC06) }

const hour = 3600

// ---------- case description ----------

type tokDesc struct {
	Kind     string `json:"kind"`         // none garbage trunc ctype badinfo ok
	Msg      string `json:"message"`      // sig other version hashalg
	GenH     int    `json:"gen_hours"`    // genTime, hours from now
	Acc      int    `json:"acc_seconds"`  // accuracy
	Baseline bool   `json:"baseline_oid"` // baseline policy OID (zero accuracy = 1 s)
	PKI      string `json:"tsa"`          // which in-harness TSA issues it
	BadSig   bool   `json:"corrupt_sig"`  // CMS signature damaged
	RevErr   bool   `json:"rev_error"`    // timestamping revocation validator errors
	Rev      []int  `json:"rev_vector"`   // its result vector otherwise (nil = all OK); 5 = a nil entry
	RevShort int    `json:"rev_shorter"`  // drop this many results from the end
	RevLong  int    `json:"rev_longer"`   // append this many extra (OK) results: more results than TSA certificates
	facts    string // Gallina term of the oracle facts
	Facts    string `json:"oracle_facts"`
}

type c06Case struct {
	Fam    string   `json:"family"`
	Format string   `json:"format"`
	SA     bool     `json:"signing_authority"`
	Win    [][2]int `json:"cert_windows_hours"` // per certificate, leaf first: [notBefore, notAfter] in hours from now
	SigH   int      `json:"signing_time_hours"`
	ExpH   *int     `json:"expiry_hours"`
	Stores []string `json:"trust_stores"` // complete trustStores list of the policy
	Opt    string   `json:"verify_timestamp"`
	Level  string   `json:"level"`
	AExp   string   `json:"action_expiry"`
	ATs    string   `json:"action_authentic_timestamp"`
	Tok    tokDesc  `json:"countersignature"`
	Anchor int      `json:"trust_anchor"` // certificate of the signing chain held by the scheme's store: 0 root, 1 middle, 2 leaf
	Dyn    string   `json:"dyn_store"`    // history only: what the tsa store "dyn" holds at this call: a, b, empty, fail
	Entry  string   `json:"entry_point"`  // namespace histories: "oci:<statement>" (Verify) or "blob:<statement>" (VerifyBlob); the policy fields above are those of that statement
	Hist   string   `json:"history"`      // history only: "<sequence>#<step>" — same verifier instance as the previous steps
	FS     *fsDesc  `json:"real_trust_store,omitempty"` // non-nil: the verifier gets the REAL truststore.NewX509TrustStore on a directory tree built by the driver
	sess   *session
	// observation
	ObsExpiry string `json:"obs_expiry"`
	ObsTs     string `json:"obs_authentic_timestamp"`
	Rejected  bool   `json:"obs_rejected"`
	NowS      int64  `json:"now_seconds"`
}

// fsDesc describes the tree truststore/x509/<type>/<name>/ of a real-store case: per named store the certificates it
// holds: "anchor" = the trust anchor of this case's signing chain, "a" / "b" = the root of the in-harness TSA A / B.
// A store that is not a key has no directory.
type fsDesc struct {
	CA  map[string][]string `json:"ca"`
	TSA map[string][]string `json:"tsa"`
}

// ---------- the TSA world (shared by all cases) ----------

type pki struct {
	leaf  *tsaCert
	extra []*x509.Certificate // carried in the token besides the leaf
}

type tsaWorld struct {
	pkis   map[string]*pki
	stores map[string][]*x509.Certificate // tsa store name -> certificates (present key = store exists)
	fail   map[string]bool
}

func newTSAWorld(t0 time.Time) *tsaWorld {
	w := &tsaWorld{pkis: map[string]*pki{}, stores: map[string][]*x509.Certificate{}, fail: map[string]bool{}}
	far1, far2 := t0.Add(-20000*time.Hour), t0.Add(20000*time.Hour)
	root := func(cn string) *tsaCert {
		return mintTSA(tsaCertSpec{CN: cn, NotBefore: far1, NotAfter: far2, CA: true, KeyUsage: x509.KeyUsageCertSign}, nil)
	}
	leafSpec := func(cn string) tsaCertSpec {
		return tsaCertSpec{CN: cn, NotBefore: far1, NotAfter: far2, KeyUsage: x509.KeyUsageDigitalSignature, EKU: 1}
	}
	// A: root -> leaf
	ra := root("tsa A root")
	w.pkis["a"] = &pki{leaf: mintTSA(leafSpec("tsa A leaf"), ra), extra: []*x509.Certificate{ra.C}}
	w.stores["a"] = []*x509.Certificate{ra.C}
	// B: root -> intermediate -> leaf; store "bi" trusts the intermediate
	rb := root("tsa B root")
	ib := mintTSA(tsaCertSpec{CN: "tsa B inter", NotBefore: far1, NotAfter: far2, CA: true, KeyUsage: x509.KeyUsageCertSign}, rb)
	w.pkis["b"] = &pki{leaf: mintTSA(leafSpec("tsa B leaf"), ib), extra: []*x509.Certificate{ib.C, rb.C}}
	w.stores["b"] = []*x509.Certificate{rb.C}
	w.stores["bi"] = []*x509.Certificate{ib.C}
	w.stores["ab"] = []*x509.Certificate{ra.C, rb.C}
	// C: leaf may also sign certificates (mis-purposed key usage)
	rc := root("tsa C root")
	lc := leafSpec("tsa C leaf")
	lc.KeyUsage = x509.KeyUsageDigitalSignature | x509.KeyUsageCertSign
	w.pkis["c"] = &pki{leaf: mintTSA(lc, rc), extra: []*x509.Certificate{rc.C}}
	w.stores["c"] = []*x509.Certificate{rc.C}
	// D: self-signed TSA certificate
	ld := mintTSA(leafSpec("tsa D selfsigned"), nil)
	w.pkis["d"] = &pki{leaf: ld}
	w.stores["d"] = []*x509.Certificate{ld.C}
	// E: leaf valid only from 20 h to 10 h ago
	re := root("tsa E root")
	le := leafSpec("tsa E leaf")
	le.NotBefore, le.NotAfter = t0.Add(-20*time.Hour), t0.Add(-10*time.Hour)
	w.pkis["e"] = &pki{leaf: mintTSA(le, re), extra: []*x509.Certificate{re.C}}
	w.stores["e"] = []*x509.Certificate{re.C}
	// F, G, H: EKU not critical / absent / codeSigning
	for name, eku := range map[string]int{"f": 2, "g": 0, "h": 3} {
		r := root("tsa " + strings.ToUpper(name) + " root")
		l := leafSpec("tsa " + strings.ToUpper(name) + " leaf")
		l.EKU = eku
		w.pkis[name] = &pki{leaf: mintTSA(l, r), extra: []*x509.Certificate{r.C}}
		w.stores[name] = []*x509.Certificate{r.C}
	}
	// K: root without the keyCertSign usage bit
	rk := mintTSA(tsaCertSpec{CN: "tsa K root", NotBefore: far1, NotAfter: far2, CA: true, KeyUsage: x509.KeyUsageDigitalSignature}, nil)
	w.pkis["k"] = &pki{leaf: mintTSA(leafSpec("tsa K leaf"), rk), extra: []*x509.Certificate{rk.C}}
	w.stores["k"] = []*x509.Certificate{rk.C}
	w.stores["T.s_A-1"] = []*x509.Certificate{ra.C} // a store name using every character class the policy allows
	w.stores["empty"] = nil
	w.fail["fail"] = true
	return w
}

// ---------- a verifier instance shared by the steps of a history ----------

type session struct {
	store     *MockStore
	rv        *tsRev
	v         notation.Verifier
	doc       any                             // the policy document(s) the verifier was built from
	vb        notation.BlobVerifier           // namespace histories: the same instance, as a blob verifier
	stmts     map[string]*c06Case             // namespace histories: entry point -> policy content (Stores, Opt, Level, AExp, ATs)
	opts      *notation.VerifierVerifyOptions // non-nil: every step passes this very object (same maps)
	lastToken []byte
	real      truststore.X509TrustStore // real-store histories: ONE truststore.NewX509TrustStore instance for all steps
	fsRoot    string
}

// frame is a deep snapshot of every caller-owned object that goes by reference into the library: the descriptor
// (annotations map), the envelope bytes, the verify options (plugin-config and user-metadata maps), the trust policy
// document (its slices and override map), the trustStores slice the document was built from, and the trust store's
// certificate slices (order, identity and content of every certificate). The library may only read them.
func frame(desc ocispec.Descriptor, env []byte, opts *notation.VerifierVerifyOptions, doc any, stores []string, store *MockStore) map[string]string {
	j := func(v any) string { return string(must(json.Marshal(v))) }
	f := map[string]string{
		"target descriptor":                                j(desc),
		"signature envelope bytes":                         fmt.Sprintf("%d:%x", len(env), sha256.Sum256(env)),
		"verify options (PluginConfig, UserMetadata maps)": j(opts),
		"trust policy document":                            j(doc),
		"trustStores slice":                                j(stores),
	}
	for k, certs := range store.Certs {
		var b strings.Builder
		for _, c := range certs {
			fmt.Fprintf(&b, "%p:%x:%d:%d;", c, sha256.Sum256(c.Raw), c.NotBefore.Unix(), c.NotAfter.Unix())
		}
		f[fmt.Sprintf("certificate slice of trust store %s:%s", k.Type, k.Name)] = fmt.Sprintf("%d|%s", len(certs), b.String())
	}
	f["trust store failure table"] = fmt.Sprint(len(store.Fail))
	return f
}

// treeDigest lists every entry below root with mode and content hash.
func treeDigest(root string) string {
	if root == "" {
		return ""
	}
	var out []string
	filepath.Walk(root, func(p string, fi os.FileInfo, err error) error {
		if err != nil {
			out = append(out, p+":"+err.Error())
			return nil
		}
		h := ""
		if fi.Mode().IsRegular() {
			b, _ := os.ReadFile(p)
			h = fmt.Sprintf("%x", sha256.Sum256(b))
		}
		out = append(out, fmt.Sprintf("%s:%v:%s", p, fi.Mode(), h))
		return nil
	})
	sort.Strings(out)
	return fmt.Sprintf("%x", sha256.Sum256([]byte(strings.Join(out, "\n"))))
}

func anchorIndex(n, anchor int) int {
	switch anchor {
	case 1:
		return n / 2
	case 2:
		return 0
	}
	return n - 1
}

func newStore(world *tsaWorld) *MockStore {
	store := NewMockStore()
	for name, certs := range world.stores {
		store.Put(truststore.TypeTSA, name, certs...)
	}
	for name := range world.fail {
		store.Fail[StoreKey{Type: truststore.TypeTSA, Name: name}] = true
	}
	return store
}

func newVerifier(c *c06Case, store truststore.X509TrustStore, rv *tsRev) (notation.Verifier, any) {
	natural := map[string]string{"strict": "Enforce", "permissive": "Log", "audit": "Log"}[c.Level]
	override := map[trustpolicy.ValidationType]trustpolicy.ValidationAction{trustpolicy.TypeRevocation: trustpolicy.ActionSkip}
	act := map[string]trustpolicy.ValidationAction{"Enforce": trustpolicy.ActionEnforce, "Log": trustpolicy.ActionLog}
	if c.AExp != natural {
		override[trustpolicy.TypeExpiry] = act[c.AExp]
	}
	if c.ATs != natural {
		override[trustpolicy.TypeAuthenticTimestamp] = act[c.ATs]
	}
	doc := OCIPolicy(c.Level, override, c.Stores, []string{"*"}, trustpolicy.TimestampOption(c.Opt))
	v, err := verifier.NewVerifierWithOptions(store, verifier.VerifierOptions{OCITrustPolicy: doc, RevocationTimestampingValidator: rv})
	if err != nil {
		panic(fmt.Sprintf("c06: verifier construction: %v", err))
	}
	return v, doc
}

const otherRef = "reg.example/other@sha256:9834876dcfb05cb167a5c24953eba58c4ac89b1adf57f28f2f9d09af107ee8f0"

func sigVerification(c *c06Case) trustpolicy.SignatureVerification {
	natural := map[string]string{"strict": "Enforce", "permissive": "Log", "audit": "Log"}[c.Level]
	override := map[trustpolicy.ValidationType]trustpolicy.ValidationAction{trustpolicy.TypeRevocation: trustpolicy.ActionSkip}
	act := map[string]trustpolicy.ValidationAction{"Enforce": trustpolicy.ActionEnforce, "Log": trustpolicy.ActionLog}
	if c.AExp != natural {
		override[trustpolicy.TypeExpiry] = act[c.AExp]
	}
	if c.ATs != natural {
		override[trustpolicy.TypeAuthenticTimestamp] = act[c.ATs]
	}
	return trustpolicy.SignatureVerification{VerificationLevel: c.Level, Override: override, VerifyTimestamp: trustpolicy.TimestampOption(c.Opt)}
}

// newNSVerifier builds ONE verifier holding an OCI document (statements p: scope of TestRef, q: scope of otherRef)
// and a blob document whose statements carry the SAME names p and q with different content.
func newNSVerifier(sess *session, store *MockStore) {
	oci := &trustpolicy.OCIDocument{Version: "1.0"}
	blob := &trustpolicy.BlobDocument{Version: "1.0"}
	for _, name := range []string{"p", "q"} {
		if st := sess.stmts["oci:"+name]; st != nil {
			scope := TestScope
			if name == "q" {
				scope = "reg.example/other"
			}
			oci.TrustPolicies = append(oci.TrustPolicies, trustpolicy.OCITrustPolicy{Name: name, RegistryScopes: []string{scope},
				SignatureVerification: sigVerification(st), TrustStores: st.Stores, TrustedIdentities: []string{"*"}})
		}
		if st := sess.stmts["blob:"+name]; st != nil {
			blob.TrustPolicies = append(blob.TrustPolicies, trustpolicy.BlobTrustPolicy{Name: name,
				SignatureVerification: sigVerification(st), TrustStores: st.Stores, TrustedIdentities: []string{"*"}})
		}
	}
	v, err := verifier.NewVerifierWithOptions(store, verifier.VerifierOptions{OCITrustPolicy: oci, BlobTrustPolicy: blob, RevocationTimestampingValidator: sess.rv})
	if err != nil {
		panic(fmt.Sprintf("c06: verifier construction (two documents): %v", err))
	}
	sess.v, sess.vb, sess.doc = v, v, []any{oci, blob}
}

// ---------- envelope surgery ----------

// withCertsAndToken replaces the certificate chain carried in the unsigned
// part of the envelope and attaches a timestamp countersignature.
func withCertsAndToken(format string, env []byte, certs []*x509.Certificate, token []byte) []byte {
	switch format {
	case MtJWS:
		var m map[string]json.RawMessage
		if err := json.Unmarshal(env, &m); err != nil {
			panic(err)
		}
		var h map[string]any
		if err := json.Unmarshal(m["header"], &h); err != nil {
			panic(err)
		}
		if certs != nil {
			x5c := make([]string, len(certs))
			for i, c := range certs {
				x5c[i] = base64.StdEncoding.EncodeToString(c.Raw)
			}
			h["x5c"] = x5c
		}
		if token != nil {
			h["io.cncf.notary.timestampSignature"] = base64.StdEncoding.EncodeToString(token)
		}
		m["header"] = must(json.Marshal(h))
		return must(json.Marshal(m))
	default:
		var msg cose.Sign1Message
		if err := msg.UnmarshalCBOR(env); err != nil {
			panic(err)
		}
		if certs != nil {
			x5 := make([]any, len(certs))
			for i, c := range certs {
				x5[i] = c.Raw
			}
			msg.Headers.Unprotected[cose.HeaderLabelX5Chain] = x5
		}
		if token != nil {
			msg.Headers.Unprotected["io.cncf.notary.timestampSignature"] = token
		}
		msg.Headers.RawUnprotected = nil // re-encode the edited map (the protected bucket keeps its signed bytes)
		return must(msg.MarshalCBOR())
	}
}

// ---------- oracle facts about a token ----------

type tsaFacts struct {
	present, parses, info, imprint, verify, rules bool
	gen                                           time.Time
	acc                                           time.Duration
	chain                                         []*x509.Certificate
}

func askTSA(token, sig []byte, roots []*x509.Certificate) tsaFacts {
	var f tsaFacts
	f.present = len(token) > 0
	if !f.present {
		return f
	}
	st, err := tspclient.ParseSignedToken(token)
	if err != nil {
		return f
	}
	f.parses = true
	info, err := st.Info()
	if err != nil {
		return f
	}
	f.info = true
	ts, err := info.Validate(sig)
	if err != nil {
		return f
	}
	f.imprint = true
	f.gen, f.acc = ts.Value, ts.Accuracy
	if len(roots) == 0 {
		return f
	}
	pool := x509.NewCertPool()
	for _, c := range roots {
		pool.AddCert(c)
	}
	chain, err := st.Verify(context.Background(), x509.VerifyOptions{CurrentTime: ts.Value, Roots: pool})
	if err != nil {
		return f
	}
	f.verify = true
	f.chain = chain
	f.rules = nx509.ValidateTimestampingCertChain(chain) == nil
	return f
}

var c06ResNames = []string{"ROK", "RNonRevokable", "RUnknown", "RRevoked", "ROther", "RNil"}

func c06Result(k int) revresult.Result {
	switch k {
	case 0:
		return revresult.ResultOK
	case 1:
		return revresult.ResultNonRevokable
	case 2:
		return revresult.ResultUnknown
	case 3:
		return revresult.ResultRevoked
	}
	return revresult.Result(7)
}

func indexOf(xs []string, s string) int64 {
	for i, x := range xs {
		if x == s {
			return int64(i)
		}
	}
	return 999
}

// classify maps the error of the authenticTimestamp result to the [why] enum of the model.
func classify(msg string, chain, tsaChain []string) (string, string) {
	subj, _ := FirstQuoted(msg)
	at := func(ctor string, in []string) (string, string) {
		k := indexOf(in, subj)
		return CApp(ctor, CN(k)), fmt.Sprintf("%s %d", ctor, k)
	}
	switch {
	case strings.Contains(msg, "was not valid when the digital signature was produced"):
		return at("WSigTime", chain)
	case strings.Contains(msg, "failed to check tsa trust store configuration"):
		return "WConfig", "WConfig"
	case strings.HasPrefix(msg, "verification time is before certificate"):
		return at("WNowBefore", chain)
	case strings.HasPrefix(msg, "verification time is after certificate"):
		return at("WNowAfter", chain)
	case strings.Contains(msg, "no timestamp countersignature was found"):
		return "WNoToken", "WNoToken"
	case strings.HasPrefix(msg, "failed to parse timestamp countersignature"):
		return "WParse", "WParse"
	case strings.HasPrefix(msg, "failed to get the timestamp TSTInfo"):
		return "WInfo", "WInfo"
	case strings.HasPrefix(msg, "failed to get timestamp from timestamp countersignature"):
		return "WImprint", "WImprint"
	case strings.HasPrefix(msg, "failed to load tsa trust store"):
		return "WLoad", "WLoad"
	case strings.Contains(msg, "no trusted TSA certificate found"):
		return "WNoRoots", "WNoRoots"
	case strings.HasPrefix(msg, "failed to verify the timestamp countersignature"):
		return "WVerify", "WVerify"
	case strings.HasPrefix(msg, "failed to validate the timestamping certificate chain"):
		return "WRules", "WRules"
	case strings.HasPrefix(msg, "timestamp can be before certificate"):
		return at("WTsBefore", chain)
	case strings.HasPrefix(msg, "timestamp can be after certificate"):
		return at("WTsAfter", chain)
	case strings.HasPrefix(msg, "failed to check timestamping certificate chain revocation with error: revocation validator returned no result for certificate #"):
		var k int64
		fmt.Sscanf(strings.TrimPrefix(msg, "failed to check timestamping certificate chain revocation with error: revocation validator returned no result for certificate #"), "%d", &k)
		return CApp("WRevNil", CN(k-1)), fmt.Sprintf("WRevNil %d", k-1)
	case strings.HasPrefix(msg, "failed to check timestamping certificate chain revocation with error: revocation validator returned "):
		return "WRevCount", "WRevCount"
	case strings.HasPrefix(msg, "failed to check timestamping certificate chain revocation"):
		return "WRevErr", "WRevErr"
	case strings.HasPrefix(msg, "timestamping certificate with subject") && strings.HasSuffix(msg, "is revoked"):
		return at("WRevoked", tsaChain)
	case strings.HasPrefix(msg, "timestamping certificate with subject") && strings.HasSuffix(msg, "revocation status is unknown"):
		return at("WRevUnknown", tsaChain)
	}
	return "(WSigTime 998%N)", "UNRECOGNISED: " + msg
}

// tsRev is the scripted revocation validator for TSA chains: it answers with
// one result per certificate of the chain it is asked about.
type tsRev struct {
	vec     []int
	short   int
	long    int
	err     error
	calls   [][]*x509.Certificate
	timeSet bool
}

func (r *tsRev) vector(n int) []int {
	vec := append([]int(nil), r.vec...)
	if len(vec) > n {
		vec = vec[:n]
	}
	for len(vec) < n {
		vec = append(vec, 0)
	}
	if r.short > 0 && r.short <= len(vec) {
		vec = vec[:len(vec)-r.short]
	}
	for i := 0; i < r.long; i++ {
		vec = append(vec, 0)
	}
	return vec
}

func (r *tsRev) ValidateContext(ctx context.Context, o revocation.ValidateContextOptions) ([]*revresult.CertRevocationResult, error) {
	r.calls = append(r.calls, o.CertChain)
	if !o.AuthenticSigningTime.IsZero() {
		r.timeSet = true
	}
	if r.err != nil {
		return nil, r.err
	}
	var out []*revresult.CertRevocationResult
	for _, k := range r.vector(len(o.CertChain)) {
		if k == 5 { // a nil entry
			out = append(out, nil)
			continue
		}
		out = append(out, &revresult.CertRevocationResult{Result: c06Result(k)})
	}
	return out, nil
}

func fsKey(f *fsDesc) string {
	if f == nil {
		return ""
	}
	return string(must(json.Marshal(f)))
}

func secs(t, base time.Time) int64 {
	d := t.Sub(base)
	if d%time.Second != 0 {
		panic(fmt.Sprintf("c06: time %v is not on a whole second of the base", t))
	}
	return int64(d / time.Second)
}

// ---------- the driver ----------

func runC06(a *Args) error {
	rng := NewRng(a.Seed)
	prelude := "From NV Require Import Base C06_Model.\nOpen Scope string_scope.\n"
	w := NewCaseWriter(a, "C06", prelude, "case", "run")
	w.Rule = "signing chains of 1..4 certificates minted per case with one validity window per certificate, signing time and expiry placed hours before / after the moment of verification, both schemes and envelope formats, policies whose trustStores list none / one / several / duplicated / empty / failing tsa stores in varying positions x verifyTimestamp {unset, always, afterCertExpiry} x actions of expiry and authenticTimestamp {enforce, log}; countersignatures from an in-harness RFC 3161 TSA: absent, unparsable, wrong content type, bad TSTInfo, over another message / wrong version / unknown hash, from an untrusted root, with a damaged signature, from TSA certificates that are expired at genTime / lack the critical timeStamping EKU / are mis-purposed / chain to a non-self-signed anchor, with genTime +- accuracy inside, on the edge of and outside each certificate window, and every revocation verdict of the timestamping validator, including answers that do not hold one result per TSA certificate (shorter - also cutting off a revoked result -, longer, a nil entry at every position alone and next to other verdicts). Families: each rule of the property violated by its own edit of an otherwise valid case (the edited certificate at every chain position, for each of the three clocks: now, authentic signing time, timestamp); windows nested leaf-innermost and root-innermost with the clock in every gap; the odd tsa store and the scheme's own store at every position of the trustStores list; the trust anchor held by the store at root / middle / leaf; zero-length vs absent countersignature; histories (ONE verifier instance, 5-6 calls whose expected verdict changes, the tsa store content changing between calls, a genuine token replayed on another envelope); the REAL trust store object (truststore.NewX509TrustStore on a directory tree written by the driver) with a ca store and a tsa store of the SAME name and different content: TSA root only in tsa/<n>, only in ca/<n> (tsa/<n> holding another root or having no directory), in both, in neither x both orders of the trustStores list x verifyTimestamp {unset, always, afterCertExpiry with an expired leaf}, different names as control, and histories of two verifications on ONE verifier and ONE store object in both orders (what the tsa store holds is asked from a fresh store instance that is asked about tsa stores only); plus a random mixture. non-trivial = some validation does not simply pass on an all-valid input (a failure, an expired-now chain saved by the timestamp or by the signing time, a boundary, a non-default policy); distinct = distinct (windows, times, stores, option, actions, scheme, format, token description) tuples"
	w.Assumptions = []string{
		"the implementation reads the wall clock: every time compared with 'now' is at least one hour away from it, so the equality boundaries now = expiry / notBefore / notAfter are proved on the model only; boundaries that do not involve 'now' (signing time or timestamp range equal to a certificate bound) are driven on the code",
		"oracle facts about the countersignature (parse, TSTInfo, imprint, genTime/accuracy, chain under the tsa stores' certificates at genTime, timestamping-certificate rules) are asked from tspclient-go, crypto/x509 and notation-core-go on the very bytes the verifier receives",
		"failure reasons are recognised from the error text of the authenticTimestamp ValidationResult; certificate positions from the quoted subject",
		"integrity, authenticity and trusted identity pass (chain root in the scheme's store, identity *), revocation of the signing chain is skipped by the policy, no plugin",
		"time unit of the model = 1 s; certificate bounds, signing time, expiry, genTime and accuracy are whole seconds",
	}
	t0 := time.Now()
	world := newTSAWorld(t0)
	desc := ocispec.Descriptor{MediaType: "application/vnd.oci.image.manifest.v1+json", Digest: digest.Digest(strings.TrimPrefix(TestRef, TestScope+"@")), Size: 528,
		Annotations: map[string]string{"io.verif/c06": "frame", "io.verif/other": "x"}}
	payload := PayloadFor(desc)

	var id int64
	// prepare mints the chain, signs, attaches the countersignature and puts the trust anchor into the store;
	// the returned function performs the call on the verifier and emits the case
	prepare := func(c *c06Case, my int64) func() {
		emit := w.Want(my)
		base := time.Now().Truncate(time.Second)
		at := func(h int) time.Time { return base.Add(time.Duration(h) * time.Hour) }
		n := len(c.Win)
		for _, wdw := range c.Win {
			if wdw[0] == 0 || wdw[1] == 0 || wdw[0] >= wdw[1] {
				panic(fmt.Sprintf("c06: bad window %v (bounds must be hours away from now)", wdw))
			}
		}
		if c.ExpH != nil && (*c.ExpH == 0 || *c.ExpH <= c.SigH) {
			panic("c06: bad expiry")
		}
		// --- signing chain: narrow windows, and a twin with the same keys valid at the signing time
		narrow := make(Chain, n)
		wide := make(Chain, n)
		for i := n - 1; i >= 0; i-- {
			spec := CertSpec{Subject: Name(fmt.Sprintf("c06 k%d", i)), IsCA: i > 0 && n > 1, Leaf: i == 0}
			if n == 1 {
				spec.IsCA, spec.Leaf = false, true
			}
			var pw, pn *Cert
			if i < n-1 {
				pw, pn = wide[i+1], narrow[i+1]
			}
			spec.NotBefore, spec.NotAfter = base.Add(-20000*time.Hour), base.Add(20000*time.Hour)
			wide[i] = Mint(spec, pw)
			spec.Key = wide[i].Key
			spec.NotBefore, spec.NotAfter = at(c.Win[i][0]), at(c.Win[i][1])
			narrow[i] = Mint(spec, pn)
		}
		scheme := signature.SigningSchemeX509
		if c.SA {
			scheme = signature.SigningSchemeX509SigningAuthority
		}
		es := EnvSpec{Format: c.Format, Chain: wide, Payload: payload, Scheme: scheme, SigningTime: at(c.SigH)}
		if c.ExpH != nil {
			es.Expiry = at(*c.ExpH)
		}
		env0, err := SignEnvelope(es)
		if err != nil {
			panic(fmt.Sprintf("c06: sign: %v", err))
		}
		env1 := withCertsAndToken(c.Format, env0, narrow.Certs(), nil)
		content, err := CoreVerify(c.Format, env1)
		if err != nil {
			panic(fmt.Sprintf("c06: envelope with swapped certificates does not verify: %v", err))
		}
		for i, x := range content.SignerInfo.CertificateChain {
			if !x.Equal(narrow[i].C) {
				panic(fmt.Sprintf("c06: certificate %d of the envelope is not the swapped one (format %s)", i, c.Format))
			}
		}
		// --- countersignature
		var token []byte
		switch c.Tok.Kind {
		case "empty": // the header is there, with a zero-length value
			token = []byte{}
		case "replayed": // a genuine token, issued for the signature of the previous envelope of the history
			if c.sess != nil {
				token = c.sess.lastToken
			}
		}
		if c.Tok.Kind != "none" && c.Tok.Kind != "empty" && c.Tok.Kind != "replayed" {
			p := world.pkis[c.Tok.PKI]
			ts := tokenSpec{Message: content.SignerInfo.Signature, GenTime: at(c.Tok.GenH), AccSeconds: c.Tok.Acc, Baseline: c.Tok.Baseline,
				Version: 1, Leaf: p.leaf, Extra: p.extra, CorruptSig: c.Tok.BadSig}
			switch c.Tok.Msg {
			case "other":
				ts.Message = append([]byte("not the signature value"), content.SignerInfo.Signature...)
			case "version":
				ts.Version = 2
			case "hashalg":
				ts.BogusHash = true
			}
			switch c.Tok.Kind {
			case "ctype":
				ts.ContentType = oidData
			case "badinfo":
				ts.GarbageInfo = true
			}
			token = makeToken(ts)
			switch c.Tok.Kind {
			case "garbage":
				token = []byte{0x30, 0x03, 0x02, 0x01, 0x07}
			case "trunc":
				token = token[:len(token)/2]
			}
		}
		env := env1
		if token != nil {
			env = withCertsAndToken(c.Format, env1, nil, token)
		}
		content, err = CoreVerify(c.Format, env)
		if err != nil {
			panic(fmt.Sprintf("c06: final envelope does not verify: %v", err))
		}
		si := content.SignerInfo
		// --- trust store (fresh per case, or the one of the history's verifier)
		var store *MockStore
		if c.sess != nil {
			if c.sess.store == nil {
				c.sess.store = newStore(world)
			}
			store = c.sess.store
			c.sess.lastToken = nil
			if c.Tok.Kind == "ok" {
				c.sess.lastToken = token
			}
		} else {
			store = newStore(world)
		}
		anchorCert := narrow[anchorIndex(n, c.Anchor)].C
		var vstore truststore.X509TrustStore = store
		fsRoot := ""
		if c.FS != nil {
			// the real directory store: the tree is written before any call of the history is made
			fsRoot = filepath.Join(a.Out, "fs", fmt.Sprint(my))
			if c.sess != nil {
				if c.sess.fsRoot == "" {
					c.sess.fsRoot = fsRoot
					c.sess.real = truststore.NewX509TrustStore(dir.NewSysFS(fsRoot))
				}
				fsRoot, vstore = c.sess.fsRoot, c.sess.real
			} else {
				vstore = truststore.NewX509TrustStore(dir.NewSysFS(fsRoot))
			}
			for ty, m := range map[string]map[string][]string{"ca": c.FS.CA, "tsa": c.FS.TSA} {
				for name, labels := range m {
					d := filepath.Join(fsRoot, "truststore", "x509", ty, name)
					if err := os.MkdirAll(d, 0o755); err != nil {
						panic(err)
					}
					for _, l := range labels {
						file, cert := l+".pem", anchorCert
						if l == "anchor" {
							file = fmt.Sprintf("anchor%d.pem", my)
						} else {
							cert = world.stores[l][0]
						}
						if err := os.WriteFile(filepath.Join(d, file), pem.EncodeToMemory(&pem.Block{Type: "CERTIFICATE", Bytes: cert.Raw}), 0o644); err != nil {
							panic(err)
						}
					}
				}
			}
		} else {
			store.Put(truststore.TypeCA, "s", anchorCert)
			store.Put(truststore.TypeSigningAuthority, "s", anchorCert)
		}
		return func() {
			if c.Dyn != "" {
				k := StoreKey{Type: truststore.TypeTSA, Name: "dyn"}
				delete(store.Fail, k)
				switch c.Dyn {
				case "fail":
					store.Fail[k] = true
				case "empty":
					store.Certs[k] = nil
				default:
					store.Certs[k] = world.stores[c.Dyn]
				}
			}
			// what the trust store answers for every tsa store the policy lists (asked from the store itself)
			var dbTerms []string
			var roots []*x509.Certificate
			loadOK := true
			seenName := map[string]bool{}
			for _, s := range c.Stores {
				ty, name, _ := strings.Cut(s, ":")
				if ty != "tsa" || seenName[name] {
					continue
				}
				seenName[name] = true
				var certs []*x509.Certificate
				var err error
				if c.FS != nil {
					// asked from a FRESH instance of the real store that is asked about tsa stores only: what the
					// directory truststore/x509/tsa/<name> holds, whatever the verifier's instance did before
					certs, err = truststore.NewX509TrustStore(dir.NewSysFS(fsRoot)).GetCertificates(context.Background(), truststore.TypeTSA, name)
				} else {
					certs, err = store.GetCertificates(context.Background(), truststore.TypeTSA, name)
				}
				switch {
				case err != nil:
					dbTerms = append(dbTerms, CPair(CStr(name), "SErr"))
					loadOK = false
				case len(certs) == 0:
					dbTerms = append(dbTerms, CPair(CStr(name), "SEmpty"))
				default:
					dbTerms = append(dbTerms, CPair(CStr(name), "SCerts"))
					roots = append(roots, certs...)
				}
			}
			store.Calls = nil
			if !loadOK {
				roots = nil
			}
			facts := askTSA(si.UnsignedAttributes.TimestampSignature, si.Signature, roots)
			// --- revocation validator for the TSA chain: one result per certificate of the chain it is asked about
			tsaLen := len(facts.chain)
			if tsaLen == 0 {
				tsaLen = 2
			}
			rv := &tsRev{}
			if c.sess != nil {
				rv = c.sess.rv
			}
			rv.vec, rv.short, rv.long, rv.err, rv.calls, rv.timeSet = c.Tok.Rev, c.Tok.RevShort, c.Tok.RevLong, nil, nil, false
			var revTerm string
			if c.Tok.RevErr {
				rv.err = errors.New("mock timestamping revocation failure")
				revTerm = "VErr"
			} else {
				vec := rv.vector(tsaLen)
				items := make([]string, len(vec))
				for i, k := range vec {
					items[i] = c06ResNames[k]
				}
				revTerm = CApp("VRes", CList(items))
			}
			// --- policy and verifier (a history reuses one instance)
			var v notation.Verifier
			var doc any
			opts := &notation.VerifierVerifyOptions{PluginConfig: map[string]string{"cfg": "1", "other": "2"}, UserMetadata: map[string]string{"io.verif/c06": "frame"}}
			if c.sess != nil {
				if c.sess.v == nil {
					if c.sess.stmts != nil {
						newNSVerifier(c.sess, store)
					} else {
						c.sess.v, c.sess.doc = newVerifier(c, vstore, rv)
					}
				}
				v, doc = c.sess.v, c.sess.doc
				if c.sess.opts != nil {
					opts = c.sess.opts // the SAME options object and maps as in the previous steps
				}
			} else {
				v, doc = newVerifier(c, vstore, rv)
			}
			opts.ArtifactReference, opts.SignatureMediaType = TestRef, c.Format
			if c.Entry == "oci:q" {
				opts.ArtifactReference = otherRef
			}
			frame0 := frame(desc, env, opts, doc, c.Stores, store)
			frame0["trust store directory tree"] = treeDigest(fsRoot)
			before := time.Now()
			var outcome *notation.VerificationOutcome
			var verr2 error
			panicked := func() (p any) {
				defer func() { p = recover() }()
				switch {
				case strings.HasPrefix(c.Entry, "blob:"):
					gen := func(digest.Algorithm) (ocispec.Descriptor, error) { return desc, nil }
					outcome, verr2 = c.sess.vb.VerifyBlob(context.Background(), gen, env, notation.BlobVerifierVerifyOptions{SignatureMediaType: c.Format,
						PluginConfig: opts.PluginConfig, UserMetadata: opts.UserMetadata, TrustPolicyName: strings.TrimPrefix(c.Entry, "blob:")})
				default:
					outcome, verr2 = v.Verify(context.Background(), desc, env, *opts)
				}
				return nil
			}()
			after := time.Now()
			// frame check: the library only reads what the caller handed in
			frame1 := frame(desc, env, opts, doc, c.Stores, store)
			frame1["trust store directory tree"] = treeDigest(fsRoot)
			for what, before := range frame0 {
				if frame1[what] != before && emit {
					w.ImplViolation(my, "library mutated caller-owned "+what, c, "")
				}
			}
			for what := range frame1 {
				if _, ok := frame0[what]; !ok && emit {
					w.ImplViolation(my, "library mutated caller-owned trust store (new entry "+what+")", c, "")
				}
			}
			if panicked != nil {
				c.ObsTs = fmt.Sprintf("PANIC: %v", panicked)
				if emit {
					w.ImplViolation(my, "verifier.Verify panicked: "+fmt.Sprint(panicked), c, "")
				}
				return
			}
			if after.Sub(base) > 20*time.Minute {
				panic("c06: a case took more than 20 minutes; times are no longer hours away from now")
			}
			c.NowS = int64(before.Sub(base) / time.Second)
			// --- observation
			if r, _ := FindResult(outcome, trustpolicy.TypeAuthenticity); r == nil || r.Error != nil {
				// the model's precondition: the chain's anchor is in the scheme's store, so authenticity must pass
				c.ObsTs = fmt.Sprintf("PRECONDITION: authenticity did not pass: %v / %v", r, verr2)
				if emit {
					w.ImplViolation(my, "authenticity failed although the store of the scheme holds a certificate of the chain (state leaking between calls of one verifier, or a harness defect)", c, "")
				}
				return
			}
			chainSubj := Subjects(si.CertificateChain)
			tsaSubj := Subjects(facts.chain)
			expTerm := "None"
			c.ObsExpiry = "absent"
			if r, k := FindResult(outcome, trustpolicy.TypeExpiry); r != nil {
				switch {
				case k > 1:
					c.ObsExpiry = "duplicated"
				case r.Error == nil:
					c.ObsExpiry, expTerm = "passed", "(Some true)"
				default:
					c.ObsExpiry, expTerm = "failed", "(Some false)"
				}
			}
			tsTerm := "None"
			c.ObsTs = "absent"
			if r, k := FindResult(outcome, trustpolicy.TypeAuthenticTimestamp); r != nil {
				switch {
				case k > 1:
					c.ObsTs = "duplicated"
				case r.Error == nil:
					c.ObsTs, tsTerm = "Passed", "(Some Passed)"
				default:
					t, label := classify(r.Error.Error(), chainSubj, tsaSubj)
					c.ObsTs, tsTerm = label, CSome(CApp("Failed", t))
				}
			}
			c.Rejected = verr2 != nil
			// the revocation validator must have been asked about the TSA chain the oracle found, and nothing else
			for _, k := range rv.calls {
				if strings.Join(Subjects(k), "|") != strings.Join(tsaSubj, "|") && emit {
					w.ImplViolation(my, "timestamping revocation validator asked about another chain than the TSA chain verified under the policy's tsa stores", c, "")
				}
			}
			if rv.timeSet && emit {
				w.ImplViolation(my, "timestamping revocation validator called with a signing time", c, "")
			}
			if !emit {
				return
			}
			// --- input term
			certTerms := make([]string, n)
			for i, x := range si.CertificateChain {
				certTerms[i] = CApp("mk_cert", CZ(secs(x.NotBefore, base)), CZ(secs(x.NotAfter, base)))
			}
			expIn := "None"
			if !si.SignedAttributes.Expiry.IsZero() {
				expIn = CSome(CZ(secs(si.SignedAttributes.Expiry, base)))
			}
			schemeTerm := "X509"
			if si.SignedAttributes.SigningScheme != signature.SigningSchemeX509 {
				schemeTerm = "SigningAuthority"
			}
			var gen, acc int64
			if facts.imprint {
				gen = secs(facts.gen, base)
				if facts.acc%time.Second != 0 {
					panic("c06: accuracy is not a whole number of seconds")
				}
				acc = int64(facts.acc / time.Second)
			}
			tokTerm := CApp("mk_token", CBool(facts.present), CBool(facts.parses), CBool(facts.info), CBool(facts.imprint),
				CZ(gen), CZ(acc), CBool(facts.verify), CBool(facts.rules), CN(int64(len(facts.chain))), revTerm)
			c.Tok.Facts = fmt.Sprintf("present=%v parses=%v info=%v imprint=%v gen=%ds acc=%ds verify=%v rules=%v tsa_chain=%d rev=%s",
				facts.present, facts.parses, facts.info, facts.imprint, gen, acc, facts.verify, facts.rules, len(facts.chain), revTerm)
			optTerm := map[string]string{"": "OptUnset", "always": "OptAlways", "afterCertExpiry": "OptAfterCertExpiry"}[c.Opt]
			in := CApp("mk_input", CZ(c.NowS), schemeTerm, CZ(secs(si.SignedAttributes.SigningTime, base)), expIn,
				CList(certTerms), CStrList(c.Stores), optTerm, CList(dbTerms), tokTerm, c.AExp, c.ATs)
			obs := CApp("mk_obs", expTerm, tsTerm, CBool(c.Rejected))
			term := CApp("mk_case", CN(my), in, obs)
			key := fmt.Sprintf("%v|%v|%v|%v|%v|%v|%v|%v|%v|%v|%+v|%v|%v|%v", c.Win, c.SigH, c.ExpH, c.Stores, c.Opt, c.AExp, c.ATs, c.SA, c.Format, c.Level, c.Tok, c.Anchor, c.Dyn, c.Hist+c.Entry+fsKey(c.FS))
			nontriv := c.ObsExpiry != "passed" || c.ObsTs != "Passed" || c.Fam != "valid"
			w.Add(my, term, c, key, nontriv)
			w.Count("family", c.Fam)
			w.Count("scheme", schemeTerm)
			w.Count("chain_len", fmt.Sprint(n))
			w.Count("verify_timestamp", "opt="+c.Opt)
			w.Count("obs_expiry", c.ObsExpiry)
			w.Count("obs_authentic_timestamp", strings.SplitN(c.ObsTs, " ", 2)[0])
			w.Count("rejected", fmt.Sprint(c.Rejected))
			w.Count("token_kind", c.Tok.Kind)
			w.Count("trust_anchor", []string{"root", "middle", "leaf"}[c.Anchor])
			if c.Hist != "" {
				w.Count("history_steps", strings.SplitN(c.Hist, "#", 2)[0])
			}
			if schemeTerm == "X509" && facts.verify && facts.rules && c.ObsTs == "Passed" && len(roots) > 0 {
				// the positive countersignature branch is driven on the real code: the mini-TSA's chain is accepted by
				// tspclient-go, crypto/x509 and notation-core-go's ValidateTimestampingCertChain
				w.Count("positive_tsa_branch", fmt.Sprintf("passed with a token verified under the tsa stores (TSA chain of %d)", len(facts.chain)))
			}
		}
	}
	runCase := func(c *c06Case) {
		my := id
		id++
		if !w.Want(my) {
			return
		}
		prepare(c, my)()
	}
	// runSeq runs the steps of a history on one verifier: all envelopes are prepared (and their anchors stored)
	// first, then the calls are made in order. Replaying one step re-runs the whole history and emits that step.
	runSeq := func(cs []*c06Case) {
		first := id
		id += int64(len(cs))
		wanted := false
		for i := range cs {
			wanted = wanted || w.Want(first+int64(i))
		}
		if !wanted {
			return
		}
		var calls []func()
		for i, c := range cs {
			calls = append(calls, prepare(c, first+int64(i)))
		}
		for _, f := range calls {
			f()
		}
	}

	generate(a, rng, runCase, runSeq)
	return w.Close()
}
