package main

// The stub plugin: the harness binary itself, reached through a symbolic link
// named notation-<name> in a per-case directory. Its behaviour is read from
// spec.json / out.bin / err.bin next to the link.

import (
	"encoding/json"
	"io"
	"os"
	"os/exec"
	"os/signal"
	"path/filepath"
	"strconv"
	"syscall"
	"time"
)

type stubSpec struct {
	Exit       int   `json:"exit"`
	SleepMs    int   `json:"sleep_ms"`
	DescMs     int   `json:"desc_ms"` // <0: no descendant
	IgnSigpipe bool  `json:"ignore_sigpipe"`
	OutPB      int64 `json:"out_pad_before"`
	OutPA      int64 `json:"out_pad_after"`
	ErrPB      int64 `json:"err_pad_before"`
	ErrPA      int64 `json:"err_pad_after"`
	NoStdin    bool  `json:"no_stdin,omitempty"`   // the plugin never reads its stdin
	DescStdin  bool  `json:"desc_stdin,omitempty"` // the descendant inherits stdin as well
}

func stubWritePad(f *os.File, n int64) {
	if n <= 0 {
		return
	}
	chunk := make([]byte, 1<<20)
	for i := range chunk {
		chunk[i] = ' '
	}
	for n > 0 {
		k := int64(len(chunk))
		if n < k {
			k = n
		}
		if _, err := f.Write(chunk[:k]); err != nil {
			return
		}
		n -= k
	}
}

func stubMain() {
	dir := filepath.Dir(os.Args[0])
	var sp stubSpec
	b, err := os.ReadFile(filepath.Join(dir, "spec.json"))
	if err != nil || json.Unmarshal(b, &sp) != nil {
		os.Exit(97)
	}
	arg := ""
	if len(os.Args) > 1 {
		arg = os.Args[1]
	}
	os.WriteFile(filepath.Join(dir, "argv"), []byte(arg), 0o644)
	if sp.IgnSigpipe {
		signal.Ignore(syscall.SIGPIPE)
	}
	if !sp.NoStdin {
		in, _ := io.ReadAll(os.Stdin)
		os.WriteFile(filepath.Join(dir, "stdin"), in, 0o644)
	}
	out, _ := os.ReadFile(filepath.Join(dir, "out.bin"))
	errb, _ := os.ReadFile(filepath.Join(dir, "err.bin"))
	// stderr first, then stdout
	stubWritePad(os.Stderr, sp.ErrPB)
	os.Stderr.Write(errb)
	stubWritePad(os.Stderr, sp.ErrPA)
	stubWritePad(os.Stdout, sp.OutPB)
	os.Stdout.Write(out)
	stubWritePad(os.Stdout, sp.OutPA)
	if sp.DescMs >= 0 {
		// a descendant that inherits stdout and stderr and outlives the plugin
		secs := strconv.FormatFloat(float64(sp.DescMs)/1000, 'f', 3, 64)
		c := exec.Command("/bin/sleep", secs)
		c.Stdout = os.Stdout
		c.Stderr = os.Stderr
		if sp.DescStdin {
			c.Stdin = os.Stdin // the read end of the request pipe, never read
		}
		c.SysProcAttr = &syscall.SysProcAttr{Setpgid: true}
		if err := c.Start(); err == nil {
			os.WriteFile(filepath.Join(dir, "desc.pid"), []byte(strconv.Itoa(c.Process.Pid)), 0o644)
		} else {
			os.WriteFile(filepath.Join(dir, "desc.err"), []byte(err.Error()), 0o644)
		}
	}
	if sp.SleepMs > 0 {
		time.Sleep(time.Duration(sp.SleepMs) * time.Millisecond)
	}
	os.Exit(sp.Exit)
}
