package main

// Generators of plugin behaviours.

import (
	"encoding/json"
	"fmt"
	"strings"
	. "vh/kit"
)

type labelled struct {
	Label string
	Bytes string
}

var metaFields = []string{"name", "description", "version", "url", "supportedContractVersions", "capabilities"}

func validMetaMap(name string) map[string]any {
	return map[string]any{
		"name": name, "description": "stub plugin", "version": "1.2.3", "url": "https://example.com/p",
		"supportedContractVersions": []string{"1.0"}, "capabilities": []string{"SIGNATURE_GENERATOR.RAW"},
	}
}

func mj(m map[string]any) string {
	b, err := json.Marshal(m)
	if err != nil {
		panic(err)
	}
	return string(b)
}

// metadata replies: valid ones and each rule violated by its own edit
func metaStdouts(name string) []labelled {
	var out []labelled
	add := func(l, s string) { out = append(out, labelled{l, s}) }
	add("valid", mj(validMetaMap(name)))
	for _, f := range metaFields {
		m := validMetaMap(name)
		delete(m, f)
		add("removed:"+f, mj(m))
		m = validMetaMap(name)
		if f == "capabilities" || f == "supportedContractVersions" {
			m[f] = []string{}
		} else {
			m[f] = ""
		}
		add("empty:"+f, mj(m))
		m = validMetaMap(name)
		m[f] = nil
		add("null:"+f, mj(m))
	}
	for _, wn := range []string{"other", strings.ToUpper(name), name + "x", "notation-" + name, name + " ", " " + name, name[:len(name)-1]} {
		if wn == name {
			wn = name + "_"
		}
		m := validMetaMap(name)
		m["name"] = wn
		add("wrongname:"+wn, mj(m))
	}
	for _, cv := range [][]string{{"2.0"}, {"1.0.0"}, {"1"}, {"1.0 "}, {"0.9", "1.1"}, {""}} {
		m := validMetaMap(name)
		m["supportedContractVersions"] = cv
		add(fmt.Sprintf("wrongcv:%v", cv), mj(m))
	}
	for _, cv := range [][]string{{"0.9", "1.0"}, {"1.0", "1.0"}, {"2.0", "1.0", "3.0"}} {
		m := validMetaMap(name)
		m["supportedContractVersions"] = cv
		add(fmt.Sprintf("goodcv:%v", cv), mj(m))
	}
	m := validMetaMap(name)
	m["capabilities"] = []string{"SIGNATURE_VERIFIER.TRUSTED_IDENTITY", "SIGNATURE_VERIFIER.REVOCATION_CHECK", "UNKNOWN.CAP"}
	add("valid:caps3", mj(m))
	m = validMetaMap(name)
	m["extra"] = map[string]any{"a": 1}
	add("valid:extra-field", mj(m))
	v := mj(validMetaMap(name))
	add("valid:trailing-newline", v+"\n")
	add("valid:leading-space", " \n\t"+v)
	add("valid:upper-keys", strings.NewReplacer(`"name"`, `"NAME"`, `"url"`, `"Url"`).Replace(v))
	add("dup:name-last-wrong", `{"name":"`+name+`",`+v[1:len(v)-1]+`,"name":"zzz"}`)
	add("dup:name-last-right", `{"name":"zzz",`+strings.Replace(v[1:len(v)-1], `"name":"`+name+`"`, `"name":"yyy"`, 1)+`,"name":"`+name+`"}`)
	add("nonjson:text", "hello plugin")
	add("nonjson:truncated", v[:len(v)/2])
	add("nonjson:garbage-after", v+" x")
	add("nonjson:two-values", v+v)
	add("nonjson:nul", v+"\x00")
	add("empty", "")
	add("ws-only", "  \n")
	add("type:array", "[]")
	add("type:string", `"`+name+`"`)
	add("type:null", "null")
	add("type:number", "17")
	add("type:name-number", `{"name":5,"description":"d","version":"1","url":"u","supportedContractVersions":["1.0"],"capabilities":["x"]}`)
	add("type:caps-string", `{"name":"`+name+`","description":"d","version":"1","url":"u","supportedContractVersions":["1.0"],"capabilities":"x"}`)
	add("empty-object", "{}")
	// the supported contract version / an odd element at every position of the list
	odd := []string{"2.0", "", "1.0 ", "1", "0.9", "1.0.0", "01.0", "1.00"}
	for n := 1; n <= 4; n++ {
		for pos := 0; pos < n; pos++ {
			l := make([]string, n)
			for k := range l {
				l[k] = odd[(k+pos+n)%len(odd)]
			}
			m := validMetaMap(name)
			m["supportedContractVersions"] = l
			add(fmt.Sprintf("cvpos:none:%d/%d", pos, n), mj(m)) // only near misses
			l2 := append([]string(nil), l...)
			l2[pos] = "1.0"
			m = validMetaMap(name)
			m["supportedContractVersions"] = l2
			add(fmt.Sprintf("cvpos:hit:%d/%d", pos, n), mj(m))
		}
	}
	for pos := 0; pos < 3; pos++ {
		l := []string{"SIGNATURE_GENERATOR.RAW", "SIGNATURE_VERIFIER.TRUSTED_IDENTITY", "SIGNATURE_GENERATOR.ENVELOPE"}
		l[pos] = ""
		m := validMetaMap(name)
		m["capabilities"] = l
		add(fmt.Sprintf("capspos:empty:%d", pos), mj(m))
	}
	m = validMetaMap(name)
	m["capabilities"] = []string{""}
	add("caps:only-empty-string", mj(m))
	// rarely used legal (and nearly legal) JSON
	esc := ""
	for _, r := range name {
		esc += fmt.Sprintf("\\u%04x", r)
	}
	add("rare:name-unicode-escapes", strings.Replace(v, `"name":"`+name+`"`, `"name":"`+esc+`"`, 1))
	add("rare:key-unicode-escape", strings.Replace(v, `"name"`, `"n\u0061me"`, 1))
	add("rare:name-trailing-nul", strings.Replace(v, `"name":"`+name+`"`, `"name":"`+name+`\u0000"`, 1))
	add("rare:name-fullwidth", strings.Replace(v, `"name":"`+name+`"`, `"name":"\uff46`+name[1:]+`"`, 1))
	add("rare:crlf-tabs", strings.NewReplacer(",", ",\r\n\t", ":", " :\t").Replace(v))
	add("rare:bom", "\xef\xbb\xbf"+v)
	add("rare:dup-cvs-last-wrong", v[:len(v)-1]+`,"supportedContractVersions":["2.0"]}`)
	add("rare:dup-cvs-last-right", strings.Replace(v, `"supportedContractVersions":["1.0"]`, `"supportedContractVersions":["2.0"]`, 1)[:len(v)-1]+`,"supportedContractVersions":["1.0"]}`)
	add("rare:dup-caps-last-empty", v[:len(v)-1]+`,"capabilities":[]}`)
	add("rare:dup-url-last-empty", v[:len(v)-1]+`,"url":""}`)
	add("rare:dup-url-last-null", v[:len(v)-1]+`,"url":null}`)
	add("type:name-array", strings.Replace(v, `"name":"`+name+`"`, `"name":["`+name+`"]`, 1))
	add("type:name-object", strings.Replace(v, `"name":"`+name+`"`, `"name":{"v":"`+name+`"}`, 1))
	add("type:cvs-object", strings.Replace(v, `["1.0"]`, `{"1.0":true}`, 1))
	add("type:cvs-numbers", strings.Replace(v, `["1.0"]`, `[1.0]`, 1))
	add("type:cvs-nested", strings.Replace(v, `["1.0"]`, `[["1.0"]]`, 1))
	add("type:cvs-null-element", strings.Replace(v, `["1.0"]`, `[null,"1.0"]`, 1))
	add("nonjson:single-quotes", strings.ReplaceAll(v, `"`, `'`))
	add("nonjson:trailing-comma", v[:len(v)-1]+`,}`)
	add("nonjson:comment", "// reply\n"+v)
	add("nonjson:value-then-newline-value", v+"\n"+`{"name":"zzz"}`)
	return out
}

func otherStdouts(cmd int) []labelled {
	var v string
	switch cmd {
	case 1:
		v = `{"keyId":"k","keySpec":"EC-256"}`
	case 2:
		v = `{"keyId":"k","signature":"c2ln","signingAlgorithm":"ECDSA-SHA-256","certificateChain":["Y2VydA=="]}`
	case 3:
		v = `{"signatureEnvelope":"ZW52","signatureEnvelopeType":"application/jose+json","annotations":{"a":"b"}}`
	case 4:
		v = `{"verificationResults":{"SIGNATURE_VERIFIER.TRUSTED_IDENTITY":{"success":true}},"processedAttributes":["x"]}`
	}
	typeErr := map[int]string{
		1: `{"keyId":5}`,
		2: `{"keyId":"k","signature":"***not base64***"}`,
		3: `{"signatureEnvelope":"ZW52","annotations":["a"]}`,
		4: `{"verificationResults":{"X":{"success":"yes"}}}`,
	}[cmd]
	return []labelled{
		{"valid", v}, {"valid:trailing-newline", v + "\n"}, {"empty-object", "{}"}, {"type:null", "null"},
		{"empty", ""}, {"nonjson:text", "done."}, {"nonjson:truncated", v[:len(v)-3]}, {"nonjson:garbage-after", v + "}"},
		{"type:array", "[]"}, {"type:field", typeErr},
		{"nonjson:two-values", v + v}, {"nonjson:value-newline-value", v + "\n{}"}, {"rare:bom", "\xef\xbb\xbf" + v},
		{"rare:dup-last-null", v[:len(v)-1] + "," + v[1:strings.Index(v, ":")] + ":null}"},
	}
}

func validStdout(cmd int, name string) string {
	if cmd == 0 {
		return mj(validMetaMap(name))
	}
	return otherStdouts(cmd)[0].Bytes
}

var errorCodes = []string{"VALIDATION_ERROR", "UNSUPPORTED_CONTRACT_VERSION", "ACCESS_DENIED", "TIMEOUT", "THROTTLED", "ERROR"}

func stderrs(rng *Rng) []labelled {
	var out []labelled
	add := func(l, s string) { out = append(out, labelled{l, s}) }
	add("empty", "")
	for _, c := range errorCodes {
		add("code:"+c, fmt.Sprintf(`{"errorCode":%q,"errorMessage":"failed with %s"}`, c, strings.ToLower(c)))
	}
	add("code:unknown", `{"errorCode":"NO_SUCH_CODE","errorMessage":"m"}`)
	add("code-only", `{"errorCode":"ERROR"}`)
	add("message-only", `{"errorMessage":"only a message"}`)
	add("metadata-only", `{"errorMetadata":{"k":"v"}}`)
	add("metadata-empty-map", `{"errorMetadata":{}}`)
	add("full", `{"errorCode":"ACCESS_DENIED","errorMessage":"no","errorMetadata":{"k":"v"}}`)
	add("full:newline", `{"errorCode":"THROTTLED","errorMessage":"slow down"}`+"\n")
	add("full:upper-keys", `{"ERRORCODE":"TIMEOUT","ErrorMessage":"t"}`)
	add("full:escapes", `{"errorCode":"ERROR","errorMessage":"café \"q\" \n"}`)
	add("incomplete:{}", `{}`)
	add("incomplete:null", `null`)
	add("incomplete:empty-strings", `{"errorCode":"","errorMessage":""}`)
	add("incomplete:metadata-null", `{"errorMetadata":null}`)
	add("incomplete:other-field", `{"error":"x"}`)
	add("nonjson:text", "panic: something went wrong\n")
	add("nonjson:truncated", `{"errorCode":"ERROR","errorMess`)
	add("nonjson:ws", "\n")
	add("nonjson:log-then-json", "WARN x\n"+`{"errorCode":"ERROR"}`)
	add("nonjson:json-then-log", `{"errorCode":"ERROR"}`+"\nWARN x")
	add("rare:dup-code-last-empty", `{"errorCode":"ERROR","errorCode":""}`)
	add("rare:dup-code-first-empty", `{"errorCode":"","errorCode":"THROTTLED","errorMessage":"dup"}`)
	add("rare:message-null", `{"errorCode":"ERROR","errorMessage":null}`)
	add("rare:code-null-message", `{"errorCode":null,"errorMessage":"only message, null code"}`)
	add("rare:unicode-escaped-key", `{"errorC\u006fde":"TIMEOUT"}`)
	add("rare:metadata-empty-key", `{"errorMetadata":{"":""}}`)
	add("rare:ws-inside", "{\r\n\t\"errorCode\" :\t\"ERROR\"\r\n}\r\n")
	add("rare:bom", "\xef\xbb\xbf"+`{"errorCode":"ERROR"}`)
	add("nonjson:two-values", `{"errorCode":"ERROR"}{"errorCode":"TIMEOUT"}`)
	add("nonjson:value-newline-value", `{"errorCode":"ERROR"}`+"\n"+`{"errorCode":"TIMEOUT"}`)
	add("type:message-object", `{"errorCode":"ERROR","errorMessage":{"text":"x"}}`)
	add("type:metadata-array", `{"errorCode":"ERROR","errorMetadata":["a"]}`)
	add("type:metadata-nonstring-value", `{"errorCode":"ERROR","errorMetadata":{"a":1}}`)
	add("type:code-number", `{"errorCode":5}`)
	add("type:array", `[]`)
	add("type:string", `"ERROR"`)
	add("big-text", strings.Repeat("log line of the plugin\n", 5000))
	// large through JSON white space, so that the decoded error (printed into the case) stays small
	add("big-json", `{"errorCode":"ERROR","errorMessage":"`+strings.Repeat("m", 40+rng.Intn(20))+`",`+strings.Repeat(" ", 200000)+`"errorMetadata":{"k":"`+strings.Repeat("v", 200)+`"}}`)
	add("metadata-multi", `{"errorCode":"ERROR","errorMetadata":{"b":"2","a":"1","c":"","a":"3"}}`)
	add("metadata-and-message", `{"errorMessage":"m","errorMetadata":{"z":"1","y":"2"}}`)
	return out
}

var pluginNames = []string{"foo", "bar-1", "com.example.kv", "x2"}

// genProc builds the list of process cases of the tier (ids assigned by the caller).
func genProc(rng *Rng, tier string) []*procCase {
	var cs []*procCase
	base := func(fam string, cmd int) *procCase {
		return &procCase{Fam: fam, Cmd: cmd, CmdName: cmdNames[cmd], Name: Pick(rng, pluginNames), File: "FExec", DescMs: -1, DeadlineMs: -1}
	}
	add := func(c *procCase) { cs = append(cs, c) }
	exits := []int{0, 1}
	ses := stderrs(rng)
	pickExit := func() int {
		if rng.Chance(1, 4) {
			return 2 + rng.Intn(120)
		}
		return 1
	}

	// A. stdout classes x exit code, random stderr (mostly empty)
	for cmd := 0; cmd < 5; cmd++ {
		nm := Pick(rng, pluginNames)
		var outs []labelled
		if cmd == 0 {
			outs = metaStdouts(nm)
		} else {
			outs = otherStdouts(cmd)
		}
		for _, o := range outs {
			for _, ex := range exits {
				if ex != 0 && cmd == 0 && tier != "thorough" && !(strings.HasPrefix(o.Label, "valid") || rng.Chance(1, 4)) {
					continue
				}
				c := base("stdout:"+o.Label, cmd)
				c.Name = nm
				c.Out = o.Bytes
				if ex != 0 {
					c.Exit = pickExit()
				}
				if rng.Chance(1, 3) {
					c.Err = Pick(rng, ses).Bytes
				}
				add(c)
			}
		}
	}
	// B. stderr classes x exit code, valid stdout
	for cmd := 0; cmd < 5; cmd++ {
		for _, e := range ses {
			if cmd != 0 && tier != "thorough" && !rng.Chance(1, 3) {
				continue
			}
			for _, ex := range exits {
				c := base("stderr:"+e.Label, cmd)
				c.Out = validStdout(cmd, c.Name)
				c.Err = e.Bytes
				if ex != 0 {
					c.Exit = pickExit()
				} else if cmd != 0 && rng.Bool() {
					continue
				}
				if rng.Chance(1, 5) {
					c.Out = ""
				}
				add(c)
			}
		}
	}
	// C. timing: slower than the deadline, cancelled, descendant holding the pipes
	for cmd := 0; cmd < 5; cmd++ {
		if tier != "thorough" && cmd != 0 && cmd != 1+rng.Intn(4) && cmd != 4 {
			continue
		}
		// sleeping past the deadline (silent / with a structured error already printed)
		for k, e := range []string{"", `{"errorCode":"TIMEOUT","errorMessage":"still working"}`, "working...\n"} {
			if k == 2 && cmd != 0 {
				continue
			}
			c := base("timing:past-deadline", cmd)
			c.Out, c.Err = validStdout(cmd, c.Name), e
			c.SleepMs, c.DeadlineMs = 16000, 1500+rng.Intn(500) // late enough for the stub to have printed its output on a loaded machine
			c.Cancel = (k == 1)
			c.Exit = rng.Intn(2)
			add(c)
		}
		// descendant holds the pipes long after a clean exit / a failing exit
		for _, ex := range exits {
			c := base("timing:descendant-long", cmd)
			c.Out = validStdout(cmd, c.Name)
			c.DescMs = 16000
			c.Exit = ex
			if ex != 0 && rng.Bool() {
				c.Err = `{"errorCode":"ERROR","errorMessage":"bye"}`
			}
			add(c)
		}
		// descendant holds them briefly: the reply still counts
		c := base("timing:descendant-short", cmd)
		c.Out = validStdout(cmd, c.Name)
		c.DescMs = 600 + rng.Intn(400)
		add(c)
		// deadline + descendant
		c = base("timing:past-deadline+descendant", cmd)
		c.Out = validStdout(cmd, c.Name)
		c.SleepMs, c.DeadlineMs, c.DescMs = 16000, 1200, 16000
		c.Cancel = rng.Bool()
		add(c)
		// slow but within the deadline
		c = base("timing:within-deadline", cmd)
		c.Out = validStdout(cmd, c.Name)
		c.SleepMs, c.DeadlineMs = 150+rng.Intn(200), 8000
		add(c)
	}
	// C2. contexts WITHOUT a deadline, every command
	for cmd := 0; cmd < 5; cmd++ {
		// WithCancel, cancelled while the plugin is still running (silent plugin)
		c := base("timing:cancel-later", cmd)
		c.Out = validStdout(cmd, c.Name)
		c.SleepMs, c.DeadlineMs, c.Cancel = 16000, 1300+rng.Intn(400), true
		add(c)
		// ... and a descendant keeps the pipes
		c = base("timing:cancel-later+descendant", cmd)
		c.Out = validStdout(cmd, c.Name)
		c.SleepMs, c.DeadlineMs, c.Cancel, c.DescMs = 16000, 1300+rng.Intn(400), true, 16000
		add(c)
		// context.Background, clean exit with a valid reply, descendant keeps the pipes
		c = base("timing:background-descendant", cmd)
		c.Out = validStdout(cmd, c.Name)
		c.DescMs = 16000
		add(c)
		// WithCancel that is never cancelled during the call, same plugin
		c = base("timing:cancel-unused-descendant", cmd)
		c.Out = validStdout(cmd, c.Name)
		c.DescMs, c.DeadlineMs, c.Cancel = 16000, 30000, true
		add(c)
		// a far deadline, same plugin
		c = base("timing:far-deadline-descendant", cmd)
		c.Out = validStdout(cmd, c.Name)
		c.DescMs, c.DeadlineMs = 16000, 30000
		add(c)
		// the context is already done when the call is made: nothing is started
		c = base("timing:already-done", cmd)
		c.Out = validStdout(cmd, c.Name)
		c.SleepMs, c.DeadlineMs, c.Cancel = 16000, 0, cmd%2 == 0
		add(c)
	}
	// C3. the request side: request size x plugin reads its stdin or not x a descendant that
	// inherits stdin (with stdout and stderr) and outlives the plugin x context. The bound on
	// the return time is the same as for the output pipes: min(deadline, exit) + WaitDelay + slack.
	fullCross := map[int]bool{0: true, 1 + rng.Intn(4): true}
	for cmd := 0; cmd < 5; cmd++ {
		for _, large := range []bool{false, true} {
			for _, reads := range []bool{true, false} {
				for _, desc := range []string{"none", "long", "short"} {
					critical := large && !reads && desc == "long"
					if !critical && !fullCross[cmd] && tier != "thorough" {
						continue
					}
					for _, cx := range []string{"background", "deadline", "cancel", "far-deadline"} {
						sz := "small"
						if large {
							sz = "large"
						}
						rd := "reads"
						if !reads {
							rd = "ignores"
						}
						c := base("stdin:"+sz+"-request+plugin-"+rd+"-stdin+descendant-"+desc+"+"+cx, cmd)
						c.Out = validStdout(cmd, c.Name)
						c.ReqPad = rng.Intn(2000)
						if large {
							c.ReqPad = 256*1024 + rng.Intn(768*1024)
						}
						c.NoStdin = !reads
						switch desc {
						case "long":
							c.DescMs, c.DescStdin = 16000, true
						case "short":
							c.DescMs, c.DescStdin = 600+rng.Intn(400), true
						}
						switch cx {
						case "deadline":
							c.SleepMs, c.DeadlineMs = 16000, 1200+rng.Intn(500)
						case "cancel":
							c.SleepMs, c.DeadlineMs, c.Cancel = 16000, 1200+rng.Intn(500), true
						case "far-deadline":
							c.DeadlineMs = 30000
						}
						add(c)
					}
				}
			}
		}
	}
	// H. histories: ONE CLIPlugin instance, the plugin changes its behaviour between the calls
	group := 0
	type step struct {
		cmd      int
		out, err string
		exit     int
	}
	hist := func(label string, name string, steps []step) {
		group++
		for k, st := range steps {
			c := base("history:"+label, st.cmd)
			c.Name = name
			c.Group, c.Step = group, k
			c.Out, c.Err, c.Exit = st.out, st.err, st.exit
			add(c)
		}
	}
	serrA := `{"errorCode":"ACCESS_DENIED","errorMessage":"first failure"}`
	serrB := `{"errorCode":"THROTTLED","errorMessage":"second failure"}`
	{
		nm := Pick(rng, pluginNames)
		ok := validStdout(0, nm)
		wrong := validStdout(0, "zzz")
		mm := validMetaMap(nm)
		delete(mm, "url")
		nourl := mj(mm)
		mm = validMetaMap(nm)
		mm["supportedContractVersions"] = []string{"2.0"}
		badcv := mj(mm)
		big := ok + strings.Repeat(" ", 150000)
		hist("meta:ok-wrongname-ok-silentfail", nm, []step{{0, ok, "", 0}, {0, wrong, "", 0}, {0, ok, "", 0}, {0, ok, "", 1}})
		hist("meta:ok-error-silentfail-ok", nm, []step{{0, ok, "", 0}, {0, "", serrA, 1}, {0, "", "", 2}, {0, ok, "", 0}})
		hist("meta:error-ok-nonjson-ok", nm, []step{{0, "", serrA, 1}, {0, ok, "", 0}, {0, "not json", "", 0}, {0, ok, "", 0}})
		hist("meta:ok-nourl-ok-badcv", nm, []step{{0, ok, "", 0}, {0, nourl, "", 0}, {0, ok, "", 0}, {0, badcv, "", 0}})
		hist("meta:wrongname-ok-wrongname", nm, []step{{0, wrong, "", 0}, {0, ok, "", 0}, {0, wrong, "", 0}})
		hist("meta:errorA-errorB-silent-nonjsonerr", nm, []step{{0, ok, serrA, 1}, {0, ok, serrB, 1}, {0, ok, "", 1}, {0, ok, "boom\n", 1}})
		hist("meta:big-small-empty", nm, []step{{0, big, "", 0}, {0, ok, "", 0}, {0, "", "", 0}, {0, ok, "", 0}})
		hist("meta:bigerr-silent", nm, []step{{0, "", strings.Repeat("x", 100000), 1}, {0, "", "", 1}, {0, ok, "", 0}})
		for cmd := 1; cmd < 5; cmd++ {
			if tier != "thorough" && cmd != 1+rng.Intn(4) && cmd != 2 {
				continue
			}
			v := validStdout(cmd, nm)
			hist("cmd:ok-silentfail-ok-error-silentfail", nm, []step{{cmd, v, "", 0}, {cmd, v, "", 1}, {cmd, v, "", 0}, {cmd, "", serrB, 3}, {cmd, "", "", 3}})
			hist("cmd:ok-nonjson-ok", nm, []step{{cmd, v, "", 0}, {cmd, v[:len(v)-2], "", 0}, {cmd, v, "", 0}})
			// several commands on one instance
			hist("mixed", nm, []step{{0, ok, "", 0}, {cmd, v, "", 1}, {0, wrong, "", 0}, {cmd, "", serrA, 1}, {0, ok, "", 2}, {cmd, v, "", 0}})
		}
	}
	// D. output larger than the cap (padding is JSON whitespace)
	bigCmds := []int{0, 1 + rng.Intn(4)}
	if tier == "thorough" {
		bigCmds = []int{0, 1, 2, 3, 4}
	}
	over := int64(capBytes + 1)
	for _, cmd := range bigCmds {
		// valid reply followed by whitespace beyond the cap, clean exit
		for _, ign := range []bool{false, true} {
			c := base("cap:stdout-over", cmd)
			c.Out = validStdout(cmd, c.Name)
			c.OutPA = over - int64(len(c.Out)) + int64(rng.Intn(3))*(1<<20)
			c.IgnSigpipe = ign
			add(c)
		}
		// exactly at the cap: accepted
		c := base("cap:stdout-exact", cmd)
		c.Out = validStdout(cmd, c.Name)
		c.OutPB = capBytes - int64(len(c.Out))
		add(c)
		// one byte over
		c = base("cap:stdout-one-over", cmd)
		c.Out = validStdout(cmd, c.Name)
		c.OutPB = capBytes - int64(len(c.Out)) + 1
		c.IgnSigpipe = true
		add(c)
		// failing process whose structured error lies beyond the cap
		c = base("cap:stderr-over-json-last", cmd)
		c.Err = `{"errorCode":"ACCESS_DENIED","errorMessage":"beyond the cap"}`
		c.ErrPB = capBytes - int64(rng.Intn(20))
		c.Exit = 1
		c.IgnSigpipe = true
		add(c)
		// ... and one that lies within it, followed by more than the cap
		c = base("cap:stderr-over-json-first", cmd)
		c.Err = `{"errorCode":"THROTTLED","errorMessage":"within the cap"}`
		c.ErrPA = over
		c.Exit = 1
		c.IgnSigpipe = rng.Bool()
		add(c)
		// exactly at the cap with the error last: still the plugin's own error
		c = base("cap:stderr-exact", cmd)
		c.Err = `{"errorCode":"TIMEOUT","errorMessage":"at the cap"}`
		c.ErrPB = capBytes - int64(len(c.Err))
		c.Exit = 3
		add(c)
		// clean exit, valid stdout, stderr over the cap
		c = base("cap:stderr-over-exit0", cmd)
		c.Out = validStdout(cmd, c.Name)
		c.ErrPB = over
		c.IgnSigpipe = true
		add(c)
	}
	// E. the file itself
	for _, f := range []string{"FNoExec", "FMissing", "FDir"} {
		for _, cmd := range []int{0, 1 + rng.Intn(4)} {
			c := base("file:"+f, cmd)
			c.File = f
			c.Out = validStdout(cmd, c.Name)
			add(c)
		}
	}
	// E2. the name given to NewCLIPlugin and the name of the file differ (the
	// name check of GetMetadata is against the former), every command
	for _, mm := range []struct{ name, base, says string }{
		{"foo", "notation-bar", "foo"}, // refutation witness of C17_name_vs_file_refuted: accepted
		{"foo", "notation-bar", "bar"}, // the plugin truthfully names its file: refused
		{"foo", "notation-FOO", "foo"},
		{"bar-1", "notation-bar-1.bin", "bar-1"},
		{"x2", "notation-", "x2"},
	} {
		for _, cmd := range []int{0, 1 + rng.Intn(4)} {
			c := base("file:name-mismatch", cmd)
			c.Name, c.Base = mm.name, mm.base
			c.Out = validStdout(cmd, mm.says)
			add(c)
		}
	}
	// E3. no process is started: what the plugin WOULD print plays no part
	for cmd := 0; cmd < 5; cmd++ {
		for k, e := range []string{`{"errorCode":"ACCESS_DENIED","errorMessage":"never printed"}`, "text never printed\n"} {
			c := base("notstarted:noexec+stderr", cmd)
			c.File = "FNoExec"
			c.Out, c.Err, c.Exit = validStdout(cmd, c.Name), e, k
			add(c)
			// context already done, a plugin that would exit at once (with and without an error)
			c = base("notstarted:already-done+stderr", cmd)
			c.Out, c.Err, c.Exit = validStdout(cmd, c.Name), e, 1-k
			c.DeadlineMs, c.Cancel = 0, (cmd+k)%2 == 0
			add(c)
		}
		c := base("notstarted:already-done-quick-plugin", cmd)
		c.Out = validStdout(cmd, c.Name)
		c.DeadlineMs, c.Cancel = 0, cmd%2 == 1
		add(c)
	}
	// G. (thorough) full product stdout class x stderr class x exit code for metadata
	if tier == "thorough" {
		nm := Pick(rng, pluginNames)
		for _, o := range metaStdouts(nm) {
			for _, e := range ses {
				for _, ex := range exits {
					c := base("product:"+o.Label+"|"+e.Label, 0)
					c.Name = nm
					c.Out, c.Err = o.Bytes, e.Bytes
					if ex != 0 {
						c.Exit = pickExit()
					}
					add(c)
				}
			}
		}
	}
	// F. random combinations
	nRand := 40
	if tier == "thorough" {
		nRand = 1500
	}
	for k := 0; k < nRand; k++ {
		cmd := rng.Intn(5)
		c := base("random", cmd)
		var outs []labelled
		if cmd == 0 {
			outs = metaStdouts(c.Name)
		} else {
			outs = otherStdouts(cmd)
		}
		if rng.Chance(1, 2) {
			c.Out = outs[0].Bytes
		} else {
			c.Out = Pick(rng, outs).Bytes
		}
		if rng.Chance(1, 2) {
			c.Err = Pick(rng, ses).Bytes
		}
		if rng.Chance(1, 2) {
			c.Exit = pickExit()
		}
		if rng.Chance(1, 4) {
			c.OutPA = int64(rng.Intn(200000))
		}
		if rng.Chance(1, 6) {
			c.SleepMs = 50 + rng.Intn(150)
			if rng.Chance(1, 2) {
				c.DeadlineMs = 6000
			}
		}
		if tier == "thorough" && rng.Chance(1, 25) {
			c.SleepMs, c.DeadlineMs = 16000, 1200+rng.Intn(800)
			c.Cancel = rng.Bool()
		}
		if tier == "thorough" && rng.Chance(1, 25) {
			c.DescMs = Pick(rng, []int{700, 16000})
		}
		add(c)
	}
	for _, c := range cs {
		c.setBound()
	}
	return cs
}
