package main

// C17 driver: runs the real plugin.CLIPlugin (NewCLIPlugin + the five protocol
// commands) against a stub plugin process (this binary, re-executed through a
// symbolic link notation-<name>), and the real LimitedWriter (through
// verifbridge.LimitWriter) over scripted write sequences; prints
// (input, observation) cases for C17_Model.

import (
	"bufio"
	"bytes"
	"context"
	"encoding/json"
	"errors"
	"fmt"
	"io"
	"os"
	"os/exec"
	"path/filepath"
	"reflect"
	"strconv"
	"strings"
	"sync"
	"time"
	. "vh/kit"

	"github.com/notaryproject/notation-go/verifbridge"
)

func main() {
	if strings.HasPrefix(filepath.Base(os.Args[0]), concStubPrefix) {
		concStubMain()
		return
	}
	if strings.HasPrefix(filepath.Base(os.Args[0]), "notation-") {
		stubMain()
		return
	}
	Main("c17", runC17)
}

// ---------- LimitedWriter cases ----------

type scriptedWriter struct {
	script  [][2]int64 // (accept at most, err?) per call
	call    int
	offered []int64
	badData bool
	expect  []byte
}

var errScripted = errors.New("scripted underlying writer error")

func (s *scriptedWriter) Write(p []byte) (int, error) {
	s.offered = append(s.offered, int64(len(p)))
	// the slice handed over must be a prefix of the caller's slice
	if len(p) > len(s.expect) || string(p) != string(s.expect[:len(p)]) {
		s.badData = true
	}
	a, e := int64(len(p)), int64(0)
	if s.call < len(s.script) {
		a, e = s.script[s.call][0], s.script[s.call][1]
	}
	s.call++
	if a > int64(len(p)) {
		a = int64(len(p))
	}
	if e != 0 {
		return int(a), errScripted
	}
	return int(a), nil
}

type writerCase struct {
	Limit  int64      `json:"limit"`
	Writes [][3]int64 `json:"writes"` // len p, accept, err
	Obs    []string   `json:"obs"`
}

func zs(v int64) string {
	if v < 0 {
		return "(" + strconv.FormatInt(v, 10) + ")"
	}
	return strconv.FormatInt(v, 10)
}

func runWriter(c *writerCase) (in, obs string) {
	// each call of the LimitedWriter makes at most one call of the underlying
	// writer; the script is consumed only when it is called, so the scripted
	// reply of write j is looked up by position: rebuild the script per call
	sw := &scriptedWriter{}
	lw := verifbridge.LimitWriter(sw, c.Limit)
	var items, obsItems []string
	for _, w := range c.Writes {
		p := make([]byte, w[0])
		for i := range p {
			p[i] = byte('a' + i%23)
		}
		sw.script = [][2]int64{{w[1], w[2]}}
		sw.call = 0
		sw.expect = p
		before := len(sw.offered)
		n, err := lw.Write(p)
		ec := "WNil"
		switch {
		case err == nil:
		case errors.Is(err, verifbridge.ErrLimitExceeded):
			ec = "WLimit"
		case errors.Is(err, errScripted):
			ec = "WUnder"
		default:
			ec = "WLimit" // unknown error: reported as a limit error where none is due
		}
		k := int64(-1)
		if len(sw.offered) > before {
			k = sw.offered[len(sw.offered)-1]
			if len(sw.offered) > before+1 || sw.badData {
				k = 1 << 40 // more than one call, or bytes that are not the prefix: never matches
			}
		}
		items = append(items, fmt.Sprintf("(%s,%s,%s)", zs(w[0]), zs(w[1]), CBool(w[2] != 0)))
		obsItems = append(obsItems, fmt.Sprintf("wr %s %s %s", zs(int64(n)), ec, zs(k)))
		c.Obs = append(c.Obs, fmt.Sprintf("n=%d %s offered=%d", n, ec, k))
	}
	return CApp("IWriter", CApp("mk_winput", zs(c.Limit), CList(items))), CApp("OWriter", CList(obsItems))
}

// sysWriters: the write that uses up the limit (exact fit, overshoot, after a
// short or failing write of the underlying writer) at every position of the
// sequence, followed by further writes (one of them empty).
func sysWriters() []*writerCase {
	var out []*writerCase
	full := int64(1 << 30)
	for _, L := range []int64{1, 7, 10} {
		for n := 1; n <= 4; n++ {
			for pos := 0; pos < n; pos++ {
				for kind := 0; kind < 4; kind++ {
					c := &writerCase{Limit: L}
					rem := L
					for j := 0; j < n; j++ {
						switch {
						case j < pos:
							// small writes before; one of them short / failing in kinds 2, 3
							l := int64(1)
							if rem-1 < int64(pos-j) {
								l = 0
							}
							acc, e := full, int64(0)
							if kind == 2 && j == 0 {
								acc = 0
							}
							if kind == 3 && j == 0 {
								acc, e = 0, 1
							}
							c.Writes = append(c.Writes, [3]int64{l, acc, e})
							if acc >= l {
								rem -= l
							}
						case j == pos:
							l := rem
							if kind == 1 {
								l = rem + 3
							}
							c.Writes = append(c.Writes, [3]int64{l, full, 0})
							rem = 0
						default:
							l := int64(j - pos - 1) // the first write after exhaustion is empty
							c.Writes = append(c.Writes, [3]int64{l * 4, full, 0})
						}
					}
					c.Writes = append(c.Writes, [3]int64{2, full, 0})
					out = append(out, c)
				}
			}
		}
	}
	return out
}

func genWriter(rng *Rng) *writerCase {
	c := &writerCase{}
	switch rng.Intn(10) {
	case 0:
		c.Limit = int64(rng.Intn(3)) - 2 // -2..0
	case 1:
		c.Limit = int64(1 + rng.Intn(3))
	case 2:
		c.Limit = 70000 - int64(rng.Intn(3))
	default:
		c.Limit = int64(rng.Intn(60))
	}
	n := 1 + rng.Intn(7)
	rem := c.Limit
	for j := 0; j < n; j++ {
		var l int64
		switch rng.Intn(8) {
		case 0:
			l = 0
		case 1:
			l = rem // exactly what remains
		case 2:
			l = rem + 1
		case 3:
			l = rem - 1
		default:
			l = int64(rng.Intn(25))
		}
		if c.Limit > 1000 && rng.Chance(1, 3) {
			l = rem - int64(rng.Intn(3)) + 1
			if rng.Bool() {
				l = rem / 2
			}
		}
		if l < 0 {
			l = 0
		}
		acc := l + 5 // takes everything
		errf := int64(0)
		switch rng.Intn(6) {
		case 0:
			acc = int64(rng.Intn(int(l%1000 + 1))) // short write
			errf = int64(rng.Intn(2))
		case 1:
			acc, errf = 0, 1
		}
		c.Writes = append(c.Writes, [3]int64{l, acc, errf})
		off := l
		if off > rem {
			off = rem
		}
		if rem > 0 {
			if acc < off {
				off = acc
			}
			rem -= off
		}
	}
	return c
}

// ---------- copy cases: io.Copy from a chunked reader into the real
// LimitedWriter over a real bytes.Buffer (the wiring of execCommander.Output) ----------

type chunkReader struct {
	chunks []int64
	next   int
	pos    int64
	bad    bool
}

func streamByte(i int64) byte { return byte('A' + i%53) }

func (r *chunkReader) Read(p []byte) (int, error) {
	if r.next >= len(r.chunks) {
		return 0, io.EOF
	}
	n := r.chunks[r.next]
	if n > int64(len(p)) { // io.Copy's buffer is 32 KiB; the generators stay below
		r.bad = true
		n = int64(len(p))
	}
	for i := int64(0); i < n; i++ {
		p[i] = streamByte(r.pos + i)
	}
	r.pos += n
	r.next++
	return int(n), nil
}

type copyCase struct {
	Limit  int64   `json:"limit"`
	Chunks []int64 `json:"chunks"`
	Obs    string  `json:"obs"`
}

func runCopy(c *copyCase) (in, obs string) {
	var buf bytes.Buffer
	lw := verifbridge.LimitWriter(&buf, c.Limit)
	src := &chunkReader{chunks: c.Chunks}
	written, err := io.Copy(lw, src)
	ec := "CUnder"
	switch {
	case err == nil:
		ec = "CNil"
	case errors.Is(err, io.ErrShortWrite):
		ec = "CShort"
	case errors.Is(err, verifbridge.ErrLimitExceeded):
		ec = "CLimit"
	}
	left := int64(-1) << 40
	if v := reflect.ValueOf(lw); v.Kind() == reflect.Ptr && v.Elem().Kind() == reflect.Struct {
		if f := v.Elem().FieldByName("N"); f.IsValid() && f.CanInt() {
			left = f.Int()
		}
	}
	buffered := int64(buf.Len())
	for i, b := range buf.Bytes() { // what is held must be the beginning of what was printed
		if b != streamByte(int64(i)) {
			buffered = -1
			break
		}
	}
	if src.bad {
		buffered = -2
	}
	items := make([]string, len(c.Chunks))
	for i, n := range c.Chunks {
		items[i] = zs(n)
	}
	c.Obs = fmt.Sprintf("written=%d err=%s left=%d reads=%d buffered=%d", written, ec, left, src.next, buffered)
	return CApp("ICopy", CApp("mk_cinput", zs(c.Limit), CList(items))),
		CApp("OCopy", CApp("mk_cres", zs(written), ec, zs(left), CN(int64(src.next))), zs(buffered))
}

// sysCopies: totals below / exactly at / above the limit, the chunk that
// crosses the limit at every position, an exact fit followed by more output.
func sysCopies() []*copyCase {
	var out []*copyCase
	for _, L := range []int64{-3, 0, 1, 2, 10, 4096, 32768, 70000} {
		for n := 0; n <= 4; n++ {
			for pos := 0; pos <= n; pos++ { // the limit is used up by the first pos chunks (pos = n: never)
				for kind := 0; kind < 3; kind++ { // 0 exact fit, 1 the crossing chunk overshoots, 2 one byte short of the limit
					if L <= 0 && (pos > 0 || kind > 0) {
						continue
					}
					c := &copyCase{Limit: L}
					rem := L
					for j := 0; j < n; j++ {
						var l int64
						switch {
						case j < pos-1:
							l = rem / int64(pos-j+1)
						case j == pos-1:
							l = rem
							if kind == 1 {
								l = rem + 5
							}
							if kind == 2 {
								l = rem - 1
							}
						default:
							l = int64(1 + 3*(j-pos))
						}
						if l > 32768 {
							l = 32768
						}
						if l <= 0 {
							l = 1
						}
						c.Chunks = append(c.Chunks, l)
						rem -= l
						if rem < 0 {
							rem = 0
						}
					}
					out = append(out, c)
				}
			}
		}
	}
	return out
}

func genCopy(rng *Rng) *copyCase {
	c := &copyCase{}
	switch rng.Intn(8) {
	case 0:
		c.Limit = int64(rng.Intn(3)) - 2
	case 1:
		c.Limit = 60000 + int64(rng.Intn(20000))
	default:
		c.Limit = int64(rng.Intn(120))
	}
	n := rng.Intn(7)
	rem := c.Limit
	for j := 0; j < n; j++ {
		var l int64
		switch rng.Intn(6) {
		case 0:
			l = rem
		case 1:
			l = rem + 1
		case 2:
			l = rem / 2
		default:
			l = int64(1 + rng.Intn(40))
		}
		if l > 32768 {
			l = 32768
		}
		if l <= 0 {
			l = 1
		}
		c.Chunks = append(c.Chunks, l)
		if rem -= l; rem < 0 {
			rem = 0
		}
	}
	return c
}

func ctxKind(c *procCase) string {
	switch {
	case c.DeadlineMs < 0:
		return "background"
	case c.DeadlineMs == 0:
		return "already-done"
	case c.Cancel && c.DeadlineMs > c.SleepMs+6000:
		return "cancel-func-unused"
	case c.Cancel:
		return "cancelled-later"
	}
	return "deadline"
}

// numberProc assigns the case ids and selects the cases to execute.
func numberProc(pcs []*procCase, only int64) (todo []*procCase, next int64) {
	for _, c := range pcs {
		c.ID = next
		next++
		if only < 0 || only == c.ID {
			todo = append(todo, c)
		}
	}
	return todo, next
}

// executeProc runs the selected process cases in parallel; the steps of one
// history run in order on one instance (in replay mode the whole history up
// to the wanted step is executed). done is called after each group.
func executeProc(a *Args, pcs, todo []*procCase, root string, done func(steps []*procCase)) {
	semNormal := make(chan struct{}, 8)
	semSlow := make(chan struct{}, 96)
	semHeavy := make(chan struct{}, 2)
	var wg sync.WaitGroup
	groups := map[int][]*procCase{}
	for _, c := range pcs {
		if c.Group > 0 {
			groups[c.Group] = append(groups[c.Group], c)
		}
	}
	started := map[int]bool{}
	for _, c := range todo {
		steps := []*procCase{c}
		if c.Group > 0 {
			if started[c.Group] {
				continue
			}
			started[c.Group] = true
			steps = groups[c.Group]
			if a.Only >= 0 {
				steps = steps[:c.Step+1]
			}
		}
		sem := semNormal
		for _, st := range steps {
			if st.heavy() {
				sem = semHeavy
			} else if st.slow() && sem != semHeavy {
				sem = semSlow
			}
		}
		wg.Add(1)
		go func(steps []*procCase, sem chan struct{}) {
			defer wg.Done()
			sem <- struct{}{}
			defer func() { <-sem }()
			executeGroup(steps, root)
			done(steps)
		}(steps, sem)
	}
	wg.Wait()
}

type procLine struct {
	ID      int64  `json:"id"`
	Result  string `json:"result"`
	ResTerm string `json:"res_term"`
	InTime  bool   `json:"in_time"`
	Argv    string `json:"argv"`
	Note    string `json:"note,omitempty"`
	Trailer bool   `json:"trailer,omitempty"`
}

// procChild: the host process of the ordinary process cases.
func procChild(a *Args, outPath string) error {
	self, err := os.Executable()
	if err != nil {
		return err
	}
	selfPath = self
	pcs := genProc(NewRng(a.Seed), a.Tier)
	todo, _ := numberProc(pcs, a.Only)
	root := filepath.Join(a.Out, "proc")
	if err := os.MkdirAll(root, 0o755); err != nil {
		return err
	}
	defer os.RemoveAll(root)
	f, err := os.Create(outPath)
	if err != nil {
		return err
	}
	var mu sync.Mutex
	put := func(l *procLine) {
		b, _ := json.Marshal(l)
		mu.Lock()
		f.Write(append(b, '\n'))
		mu.Unlock()
	}
	executeProc(a, pcs, todo, root, func(steps []*procCase) {
		for _, c := range steps {
			put(&procLine{ID: c.ID, Result: c.Result, ResTerm: c.resTerm, InTime: c.InTime, Argv: c.Argv, Note: c.Note})
		}
	})
	put(&procLine{Trailer: true})
	return f.Close()
}

// runProcChild re-executes the driver for the process cases and fills in the
// observations; it returns the cases that were observed.
func runProcChild(a *Args, w *CaseWriter, todo []*procCase) []*procCase {
	sub := filepath.Join(a.Out, "procchild")
	out := filepath.Join(a.Out, "proc_child.jsonl")
	defer os.RemoveAll(sub)
	ctx, cancel := context.WithTimeout(context.Background(), 3*time.Hour)
	defer cancel()
	cmd := exec.CommandContext(ctx, selfPath, "--tier", a.Tier, "--seed", fmt.Sprint(a.Seed), "--only", fmt.Sprint(a.Only), "--out", sub, "proc-child", out)
	cmd.WaitDelay = 5 * time.Second
	msg, err := cmd.CombinedOutput()
	obs := map[int64]*procLine{}
	done := false
	if f, e := os.Open(out); e == nil {
		sc := bufio.NewScanner(f)
		sc.Buffer(make([]byte, 1<<20), 1<<26)
		for sc.Scan() {
			var l procLine
			if json.Unmarshal(sc.Bytes(), &l) != nil {
				continue
			}
			if l.Trailer {
				done = true
			} else {
				obs[l.ID] = &l
			}
		}
		f.Close()
		os.Remove(out)
	}
	var seen []*procCase
	var missing []int64
	var firstMissing *procCase
	for _, c := range todo {
		l := obs[c.ID]
		if l == nil {
			missing = append(missing, c.ID)
			if firstMissing == nil {
				firstMissing = c
			}
			continue
		}
		c.Result, c.resTerm, c.InTime, c.Argv, c.Note = l.Result, l.ResTerm, l.InTime, l.Argv, l.Note
		seen = append(seen, c)
		if strings.HasPrefix(c.Result, "ROther: panic") {
			desc := *c
			desc.Out, desc.Err = clip(desc.Out, 300), clip(desc.Err, 300)
			w.ImplViolation(c.ID, "a plugin call panicked", &desc, "proc-panic")
		}
	}
	if err != nil || !done || len(missing) > 0 {
		tail := string(msg)
		if len(tail) > 3000 {
			tail = tail[:3000]
		}
		if len(missing) > 30 {
			missing = missing[:30]
		}
		id := int64(concBase - 1)
		var fm any
		if firstMissing != nil {
			id = firstMissing.ID
			d := *firstMissing
			d.Out, d.Err = clip(d.Out, 300), clip(d.Err, 300)
			fm = &d
		}
		w.ImplViolation(id, "the host process making the plugin calls of the ordinary cases (in parallel) ended before it was done (fatal runtime error, panic outside a call, or timeout)",
			map[string]any{"family": "process cases", "error": fmt.Sprint(err), "output": tail, "cases_without_result": missing, "first_case_without_result": fm}, "proc-fatal")
	}
	return seen
}

func runC17(a *Args) error {
	if len(a.Extra) == 2 && a.Extra[0] == "conc-child" {
		return concChild(a, a.Extra[1])
	}
	if len(a.Extra) == 2 && a.Extra[0] == "proc-child" {
		return procChild(a, a.Extra[1])
	}
	rng := NewRng(a.Seed)
	prelude := "From NV Require Import Base C17_Model.\nOpen Scope string_scope.\nOpen Scope Z_scope.\n"
	w := NewCaseWriter(a, "C17", prelude, "case", "run")
	w.ShardSize = 1500
	w.Rule = "process cases: the real NewCLIPlugin + {GetMetadata, DescribeKey, GenerateSignature, GenerateEnvelope, VerifySignature} against a stub plugin process: " +
		"stdout {valid reply, each mandatory metadata field removed / empty / null, wrong names, wrong and good contract version lists, duplicate keys, non-JSON, empty, wrong JSON types, larger than the cap, exactly the cap} x " +
		"exit code {0, non-zero} x stderr {empty, structured error with every code, partial structured errors, incomplete, non-JSON, huge, structured error beyond / within / exactly at the cap} x " +
		"timing {immediate, sleeping past a deadline or a cancellation, descendant holding the pipes long / briefly, both} x file {executable, not executable, missing, directory}; " +
		"request side: request {small, 256 KiB - 1 MiB} x plugin {reads its stdin, never reads it} x descendant inheriting stdin + stdout + stderr {none, 16 s, < 1 s} x context {background, deadline, cancelled later, far deadline}, same bound on the return time (every call under a watchdog that kills the descendant at the bound); " +
		"file name different from the name given to NewCLIPlugin (plugin reporting either); calls whose process is never started (file without x bit, context already done) while the plugin would have printed a reply / a structured error / text; structured errors with metadata maps (nil, empty, one, several unsorted and duplicate keys) compared entry by entry; " +
		"copy cases: the real io.Copy from a reader that delivers scripted chunks into the real LimitedWriter over a real bytes.Buffer (the wiring of execCommander.Output): total below / at / above the limit, the crossing chunk at every position, exact fit followed by more output; observed: bytes written, error (nil / short write / limit), remaining budget, chunks consumed, bytes held and that they are the beginning of the stream; " +
		"concurrency family: K goroutines in ONE re-executed host process, each making many calls of the real CLIPlugin methods (five commands, one plugin called by everybody and three others, a shared CLIPlugin per plugin or a fresh one) against plugin processes that derive reply, stderr and exit code from the specification carried in the request; reply sizes tiny / 64 KiB / 300-900 KiB / > 1 MiB, a quarter of the processes failing with their own structured error (or none), a context logger that yields between the end of the process and the decoding for 70 % of the calls; every call judged against its own process (response deeply equal to the decoding of the printed bytes; own error code, message and metadata), a sample emitted as ordinary cases, anomalies as implementation violations; " +
		"writer cases: random limits (<=0, small, 64 MiB) and write sequences against a scripted underlying writer (full, short, failing). " +
		"non-trivial = the stub ran and (exit code != 0 or stderr non-empty or stdout is not the plain valid reply or timing/cap involved), resp. a write sequence that reaches the limit; distinct = distinct behaviour tuples"
	w.Assumptions = []string{
		"encoding/json decides whether stdout decodes into the framework's response type and what plugin.Error makes of stderr (oracle inputs of the model)",
		"os/exec, the kernel's pipes and SIGKILL behave as documented (timed model of part (c)); return times are observed only as 'within min(deadline, exit) + WaitDelay + 4 s'",
		"the stub writes its output before it sleeps or spawns the descendant, so the captured output does not depend on the moment of the kill",
		"concurrency family: the plugin process leaves a receipt (argv, digests of its stdin, stdout, stderr) that ties the expected reply to what was really printed; overlap is real but scheduling dependent (calls in flight are recorded per call)",
		"peak memory of the host is not measured; the cap is observed through the result (a reply or structured error that only exists beyond the cap must not be used) and through the bytes handed to the underlying writer",
	}
	self, err := os.Executable()
	if err != nil {
		return err
	}
	root := filepath.Join(a.Out, "proc")
	if err := os.MkdirAll(root, 0o755); err != nil {
		return err
	}
	defer os.RemoveAll(root)

	// ---- process cases: generate, execute in parallel, emit in id order ----
	pcs := genProc(rng, a.Tier)
	todo, id := numberProc(pcs, a.Only)
	selfPath = self
	terms := map[int64]string{}
	for _, c := range todo {
		terms[c.ID] = c.inputTerm() // oracles, sequentially (some allocate)
	}
	if a.Only >= 0 {
		for _, c := range todo {
			if c.Group > 0 {
				for _, st := range pcs {
					if st.Group == c.Group && st.Step <= c.Step {
						st.inputTerm()
					}
				}
			}
		}
	}
	// the calls are made in a re-executed child process (they run in parallel:
	// a fatal runtime error of the host side must be recorded, not end the driver)
	if len(todo) > 0 {
		todo = runProcChild(a, w, todo)
	}
	for _, c := range todo {
		term := CApp("mk_case", CN(c.ID), CApp("IProc", terms[c.ID]), CApp("OProc", c.obsTerm()))
		plainValid := c.Out == validStdout(c.Cmd, c.Name) && c.OutPA == 0 && c.OutPB == 0
		nontriv := c.File == "FExec" && (c.Exit != 0 || c.errLen() > 0 || !plainValid || c.slow() || c.heavy() || c.DeadlineMs >= 0)
		key := fmt.Sprintf("%d.%d|%d|%s|%s|%d|%d|%d|%d|%v|%d|%s|%d|%d|%s|%d", c.Group, c.Step, c.Cmd, c.Name, c.File, c.Exit, c.SleepMs, c.DescMs, c.DeadlineMs, c.Cancel, c.OutPB, c.Out, c.OutPA, c.ErrPB, c.Err, c.ErrPA) +
			fmt.Sprintf("|%v|%v|%v", c.reqLarge(), c.NoStdin, c.DescStdin)
		desc := *c
		if len(desc.Err) > 300 {
			desc.Err = desc.Err[:300] + fmt.Sprintf("...(%d bytes)", len(c.Err))
		}
		w.Add(c.ID, term, &desc, key, nontriv)
		w.Count("family", strings.SplitN(c.Fam, ":", 2)[0])
		if c.Group > 0 {
			w.Count("history_step", fmt.Sprint(c.Step))
		}
		w.Count("context", ctxKind(c))
		if strings.HasPrefix(c.Fam, "stdin:") {
			w.Count("stdin_side", fmt.Sprintf("request_large=%v plugin_reads_stdin=%v descendant_holds_stdin=%v", c.reqLarge(), !c.NoStdin, c.DescStdin))
		}
		w.Count("command", c.CmdName)
		w.Count("result", strings.SplitN(c.Result, " ", 2)[0])
		w.Count("in_time", fmt.Sprint(c.InTime))
		if strings.HasPrefix(c.Result, "ROther") {
			w.Count("other_errors", c.Result)
		}
	}

	// ---- writer cases ----
	nW := 2500
	if a.Tier == "thorough" {
		nW = 60000
	}
	sys := sysWriters()
	for k := 0; k < nW+len(sys); k++ {
		var c *writerCase
		if k < len(sys) {
			c = sys[k]
		} else {
			c = genWriter(rng)
		}
		my := id
		id++
		if !w.Want(my) {
			continue
		}
		in, obs := runWriter(c)
		term := CApp("mk_case", CN(my), in, obs)
		var sum int64
		for _, x := range c.Writes {
			sum += x[0]
		}
		w.Add(my, term, c, fmt.Sprint(c.Limit, c.Writes), sum >= c.Limit)
		w.Count("family", "writer")
		w.Count("writer_limit", map[bool]string{true: "<=0", false: ">0"}[c.Limit <= 0])
	}

	// ---- copy cases ----
	nC := 600
	if a.Tier == "thorough" {
		nC = 20000
	}
	sysC := sysCopies()
	for k := 0; k < nC+len(sysC); k++ {
		var c *copyCase
		if k < len(sysC) {
			c = sysC[k]
		} else {
			c = genCopy(rng)
		}
		my := id
		id++
		if !w.Want(my) {
			continue
		}
		in, obs := runCopy(c)
		var sum int64
		for _, x := range c.Chunks {
			sum += x
		}
		w.Add(my, CApp("mk_case", CN(my), in, obs), c, fmt.Sprint("copy", c.Limit, c.Chunks), sum >= c.Limit && len(c.Chunks) > 0)
		w.Count("family", "copy")
		w.Count("copy_total_vs_limit", map[bool]string{true: "over", false: "within"}[sum > c.Limit && sum > 0])
	}

	// ---- concurrency family (re-executed child process) ----
	runConcFamily(a, w)
	return w.Close()
}
