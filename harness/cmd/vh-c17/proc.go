package main

// Execution of one process case on the real plugin.CLIPlugin, oracles
// (encoding/json on the framework types) and canonicalisation.

import (
	"bytes"
	"context"
	"encoding/json"
	"errors"
	"fmt"
	"os"
	"path/filepath"
	"strconv"
	"strings"
	"syscall"
	"time"
	. "vh/kit"

	nplugin "github.com/notaryproject/notation-go/plugin"
	"github.com/notaryproject/notation-go/plugin/proto"
	fw "github.com/notaryproject/notation-plugin-framework-go/plugin"
)

const capBytes = 64 * 1024 * 1024 // the fixed output cap the property speaks of (maxPluginOutputSize; the Coq side takes it from Generated.v)
const waitDelayMs = 5000          // pluginWaitDelay
const slackMs = 4000              // scheduling slack allowed on top of the modelled bound

var cmdNames = []string{"GetMetadata", "DescribeKey", "GenerateSignature", "GenerateEnvelope", "VerifySignature"}
var cmdArgs = []string{"get-plugin-metadata", "describe-key", "generate-signature", "generate-envelope", "verify-signature"}

type procCase struct {
	ID         int64  `json:"-"`
	Fam        string `json:"family"`
	Cmd        int    `json:"cmd"`
	CmdName    string `json:"cmd_name"`
	Name       string `json:"plugin_name"`
	Base       string `json:"file_base,omitempty"` // base name of the path given to NewCLIPlugin; "" = notation-<plugin_name>
	File       string `json:"file"`                // FExec FNoExec FMissing FDir
	Exit       int    `json:"exit"`
	SleepMs    int    `json:"sleep_ms"`
	DescMs     int    `json:"desc_ms"`     // <0 none
	DeadlineMs int    `json:"deadline_ms"` // <0 none
	Cancel     bool   `json:"cancel_instead_of_deadline"`
	IgnSigpipe bool   `json:"ignore_sigpipe"`
	OutPB      int64  `json:"out_pad_before"`
	Out        string `json:"stdout"`
	OutPA      int64  `json:"out_pad_after"`
	ErrPB      int64  `json:"err_pad_before"`
	Err        string `json:"stderr"`
	ErrPA      int64  `json:"err_pad_after"`
	BoundMs    int    `json:"bound_ms"`
	ReqPad     int    `json:"request_pad_bytes,omitempty"`      // extra bytes in the request (pluginConfig); > 64 KiB = larger than a pipe buffer
	NoStdin    bool   `json:"plugin_ignores_stdin,omitempty"`   // the plugin never reads its stdin
	DescStdin  bool   `json:"descendant_holds_stdin,omitempty"` // the descendant inherits stdin too (with stdout and stderr)
	// oracle facts
	OutFacts string `json:"stdout_facts"`
	ErrFacts string `json:"stderr_facts"`
	// observation
	Result string `json:"obs_result"`
	InTime bool   `json:"obs_in_time"`
	Argv   string `json:"obs_argv"`
	Note   string `json:"note,omitempty"`
	Group  int    `json:"history_group,omitempty"` // >0: step of a history on one long-lived CLIPlugin
	Step   int    `json:"history_step,omitempty"`

	resTerm string
}

func (c *procCase) base() string {
	if c.Base != "" {
		return c.Base
	}
	return "notation-" + c.Name
}

func (c *procCase) outLen() int64  { return c.OutPB + int64(len(c.Out)) + c.OutPA }
func (c *procCase) errLen() int64  { return c.ErrPB + int64(len(c.Err)) + c.ErrPA }
func (c *procCase) heavy() bool    { return c.outLen() > 4<<20 || c.errLen() > 4<<20 }
func (c *procCase) reqLarge() bool { return c.ReqPad > 64*1024 }
func (c *procCase) slow() bool {
	return c.SleepMs >= 500 || c.DescMs >= 500
}

// captured returns the part of pad+content+pad that fits the cap, with the
// (whitespace) padding removed; ws reports that the captured bytes are not empty.
func captured(pb int64, content string, pa int64) (vis string, nonEmpty bool) {
	total := pb + int64(len(content)) + pa
	capLen := total
	if capLen > capBytes {
		capLen = capBytes
	}
	k := capLen - pb
	if k < 0 {
		k = 0
	}
	if k > int64(len(content)) {
		k = int64(len(content))
	}
	return content[:k], capLen > 0
}

// stdoutOracle asks encoding/json what the response type of the command makes of b.
func stdoutOracle(cmd int, b []byte) (term, facts string) {
	emptyMeta := `(mk_meta "" "" "" "" [] [])`
	switch cmd {
	case 0:
		var m fw.GetMetadataResponse
		if err := json.Unmarshal(b, &m); err != nil {
			return "SBad", "bad"
		}
		caps := make([]string, len(m.Capabilities))
		for i, c := range m.Capabilities {
			caps[i] = string(c)
		}
		return CApp("SGood", CApp("mk_meta", CStr(m.Name), CStr(m.Description), CStr(m.Version), CStr(m.URL), CStrList(caps), CStrList(m.SupportedContractVersions))),
			fmt.Sprintf("good name=%q caps=%d cvs=%v", m.Name, len(caps), m.SupportedContractVersions)
	case 1:
		var r fw.DescribeKeyResponse
		if json.Unmarshal(b, &r) != nil {
			return "SBad", "bad"
		}
	case 2:
		var r fw.GenerateSignatureResponse
		if json.Unmarshal(b, &r) != nil {
			return "SBad", "bad"
		}
	case 3:
		var r fw.GenerateEnvelopeResponse
		if json.Unmarshal(b, &r) != nil {
			return "SBad", "bad"
		}
	case 4:
		var r fw.VerifySignatureResponse
		if json.Unmarshal(b, &r) != nil {
			return "SBad", "bad"
		}
	}
	return CApp("SGood", emptyMeta), "good"
}

// stderrOracle asks encoding/json what plugin.Error makes of b.
func stderrOracle(b []byte) (term, facts string) {
	var e fw.Error
	if err := json.Unmarshal(b, &e); err != nil {
		return "ENotJson", "notjson"
	}
	return CApp("EJson", CStr(string(e.ErrCode)), CStr(e.Message), mdTerm(e.Metadata)),
		fmt.Sprintf("json code=%q msg=%q md_nil=%v md_len=%d", e.ErrCode, e.Message, e.Metadata == nil, len(e.Metadata))
}

// mdTerm prints the metadata map of a structured error: None = nil map,
// (Some [...]) = the entries sorted by key.
func mdTerm(m map[string]string) string {
	if m == nil {
		return "None"
	}
	return CSome(CMap(m))
}

func (c *procCase) inputTerm() string {
	// stdout facts: decoding of the bytes when within the cap (padding is JSON whitespace)
	outVis, _ := captured(c.OutPB, c.Out, c.OutPA)
	if c.outLen() > capBytes {
		outVis = c.Out
	}
	outTerm, of := stdoutOracle(c.Cmd, []byte(outVis))
	errVis, nonEmpty := captured(c.ErrPB, c.Err, c.ErrPA)
	errTerm, ef := "ENotJson", "empty"
	if nonEmpty {
		errTerm, ef = stderrOracle([]byte(errVis))
	}
	c.OutFacts, c.ErrFacts = of, ef
	opt := func(v int) string {
		if v < 0 {
			return "None"
		}
		return CSome(CN(int64(v)))
	}
	return CApp("mk_pinput", cmdNames[c.Cmd], CStr(c.Name), CStr(c.base()), c.File, CN(int64(c.Exit)), CN(int64(c.SleepMs)),
		opt(c.DescMs), opt(c.DeadlineMs), CN(c.outLen()), outTerm, CN(c.errLen()), errTerm, CN(int64(c.BoundMs)),
		CBool(c.reqLarge()), CBool(!c.NoStdin), CBool(c.DescStdin && c.DescMs >= 0))
}

func (c *procCase) setBound() {
	t0 := c.SleepMs
	if c.DeadlineMs >= 0 && c.DeadlineMs < t0 {
		t0 = c.DeadlineMs
	}
	c.BoundMs = t0 + waitDelayMs + slackMs
}

var validationRules = []string{"", "empty name", "empty description", "empty version", "empty url", "empty capabilities", "supported contract versions not specified", "contract version "}

func classify(err error) (label, term string) {
	if err == nil {
		return "ROk", "ROk"
	}
	var re proto.RequestError
	var ef *nplugin.PluginExecutableFileError
	var mf *nplugin.PluginMalformedError
	switch {
	case errors.As(err, &re):
		msg := ""
		if re.Err != nil {
			msg = re.Err.Error()
		}
		return fmt.Sprintf("RReq %q %q metadata=%v", re.Code, msg, re.Metadata), CApp("RReq", CStr(string(re.Code)), CStr(msg), mdTerm(re.Metadata))
	case errors.As(err, &ef):
		return "RExec", "RExec"
	case errors.As(err, &mf):
		why := 99
		switch {
		case mf.Msg == "":
			why = 0
		case strings.HasPrefix(mf.Msg, "failed to unmarshal the response of"):
			why = 8
		case strings.HasPrefix(mf.Msg, "metadata validation failed for plugin"):
			if mf.InnerError != nil {
				im := mf.InnerError.Error()
				for k := 1; k < len(validationRules); k++ {
					if strings.HasPrefix(im, validationRules[k]) {
						why = k
					}
				}
			}
		}
		return fmt.Sprintf("RMalformed %d", why), CApp("RMalformed", CN(int64(why)))
	case strings.Contains(err.Error(), "plugin executable file name must be"):
		return "RName", "RName"
	}
	return "ROther: " + err.Error(), "ROther"
}

func writeFileOrPanic(p string, b []byte, mode os.FileMode) {
	if err := os.WriteFile(p, b, mode); err != nil {
		panic(err)
	}
}

// install writes the plugin file and the behaviour of the stub into dir.
func (c *procCase) install(dir string) string {
	path := filepath.Join(dir, c.base())
	os.Remove(filepath.Join(dir, "argv"))
	os.Remove(filepath.Join(dir, "desc.pid"))
	switch c.File {
	case "FExec":
		if _, err := os.Lstat(path); err != nil {
			if err := os.Symlink(selfPath, path); err != nil {
				panic(err)
			}
		}
		sp, _ := json.Marshal(stubSpec{Exit: c.Exit, SleepMs: c.SleepMs, DescMs: c.DescMs, IgnSigpipe: c.IgnSigpipe,
			OutPB: c.OutPB, OutPA: c.OutPA, ErrPB: c.ErrPB, ErrPA: c.ErrPA,
			NoStdin: c.NoStdin, DescStdin: c.DescStdin})
		writeFileOrPanic(filepath.Join(dir, "spec.json"), sp, 0o644)
		writeFileOrPanic(filepath.Join(dir, "out.bin"), []byte(c.Out), 0o644)
		writeFileOrPanic(filepath.Join(dir, "err.bin"), []byte(c.Err), 0o644)
	case "FNoExec":
		writeFileOrPanic(path, []byte("#!/bin/sh\nexit 0\n"), 0o644)
	case "FDir":
		if err := os.Mkdir(path, 0o755); err != nil {
			panic(err)
		}
	case "FMissing":
	}
	return path
}

var selfPath string

// invoke calls the command on p (a fresh CLIPlugin is made when p is nil) and
// records the observation; it returns the instance for the next step of a history.
func (c *procCase) invoke(p *nplugin.CLIPlugin, dir, path string) *nplugin.CLIPlugin {
	ctx := context.Background()
	var cancel context.CancelFunc = func() {}
	start := time.Now()
	if c.DeadlineMs >= 0 {
		d := time.Duration(c.DeadlineMs) * time.Millisecond
		if c.Cancel {
			ctx, cancel = context.WithCancel(ctx)
			if c.DeadlineMs == 0 {
				cancel()
			} else {
				t := time.AfterFunc(d, cancel)
				defer t.Stop()
			}
		} else {
			ctx, cancel = context.WithTimeout(ctx, d)
		}
	}
	defer cancel()
	var err, nerr error
	late, abandoned := false, false
	if p == nil {
		p, nerr = nplugin.NewCLIPlugin(ctx, c.Name, path)
	}
	if nerr != nil {
		c.Result, c.resTerm = "RNew", "RNew"
		p = nil
	} else {
		// the call runs under a watchdog: when it has not returned by the bound, the
		// descendant (which may be what it is blocked on) is killed; when that does not
		// bring it back either, the case is reported with the call abandoned
		finished := make(chan struct{})
		go func() {
			defer close(finished)
			defer func() {
				if r := recover(); r != nil {
					err = fmt.Errorf("panic: %v", r)
				}
			}()
			err = c.call(ctx, p)
		}()
		limit := time.Duration(c.BoundMs)*time.Millisecond + 300*time.Millisecond
		select {
		case <-finished:
		case <-time.After(time.Until(start.Add(limit))):
			late = true
			killDescendant(dir)
			cancel()
			select {
			case <-finished:
				c.Note = fmt.Sprintf("still blocked at the bound (%d ms); returned after %d ms, once the watchdog had killed the descendant", c.BoundMs, time.Since(start).Milliseconds())
			case <-time.After(20 * time.Second):
				abandoned = true
				c.Note = fmt.Sprintf("still blocked at the bound (%d ms) and 20 s after the watchdog had killed the descendant and cancelled the context: call abandoned", c.BoundMs)
			}
		}
		if abandoned {
			c.Result, c.resTerm = "ROther: call never returned", "ROther"
		} else {
			c.Result, c.resTerm = classify(err)
		}
	}
	elapsed := time.Since(start)
	c.InTime = !late && elapsed <= time.Duration(c.BoundMs)*time.Millisecond
	if !c.InTime && c.Note == "" {
		c.Note = fmt.Sprintf("returned after %d ms", elapsed.Milliseconds())
	}
	if b, e := os.ReadFile(filepath.Join(dir, "argv")); e == nil {
		c.Argv = string(b)
	} else {
		c.Argv = "<none>"
	}
	killDescendant(dir)
	if abandoned {
		return nil
	}
	return p
}

// killDescendant kills the descendant the stub left behind (its own process group).
func killDescendant(dir string) {
	if b, e := os.ReadFile(filepath.Join(dir, "desc.pid")); e == nil {
		if pid, e2 := strconv.Atoi(string(bytes.TrimSpace(b))); e2 == nil && pid > 1 {
			syscall.Kill(-pid, syscall.SIGKILL)
			syscall.Kill(pid, syscall.SIGKILL)
		}
	}
}

func (c *procCase) call(ctx context.Context, p *nplugin.CLIPlugin) (err error) {
	{
		var pc map[string]string // the size of the request is set through pluginConfig (every request type has it)
		if c.ReqPad > 0 {
			pc = map[string]string{"pad": strings.Repeat("r", c.ReqPad)}
		}
		switch c.Cmd {
		case 0:
			_, err = p.GetMetadata(ctx, &fw.GetMetadataRequest{PluginConfig: pc})
		case 1:
			_, err = p.DescribeKey(ctx, &fw.DescribeKeyRequest{KeyID: "k", PluginConfig: pc})
		case 2:
			_, err = p.GenerateSignature(ctx, &fw.GenerateSignatureRequest{KeyID: "k", KeySpec: fw.KeySpecEC256, Hash: fw.HashAlgorithmSHA256, Payload: []byte("p"), PluginConfig: pc})
		case 3:
			_, err = p.GenerateEnvelope(ctx, &fw.GenerateEnvelopeRequest{KeyID: "k", PayloadType: "application/vnd.cncf.notary.payload.v1+json", SignatureEnvelopeType: "application/jose+json", Payload: []byte("p"), PluginConfig: pc})
		case 4:
			_, err = p.VerifySignature(ctx, &fw.VerifySignatureRequest{PluginConfig: pc})
		}
	}
	return err
}

// executeGroup runs the steps of a history on ONE CLIPlugin instance (a
// single case is a history of length one); the behaviour of the stub is
// rewritten between the calls.
func executeGroup(steps []*procCase, root string) {
	dir := filepath.Join(root, strconv.FormatInt(steps[0].ID, 10))
	if err := os.MkdirAll(dir, 0o755); err != nil {
		panic(err)
	}
	defer os.RemoveAll(dir)
	var p *nplugin.CLIPlugin
	for _, c := range steps {
		path := c.install(dir)
		p = c.invoke(p, dir, path)
	}
}

func (c *procCase) obsTerm() string {
	argv := "None"
	if c.Argv != "<none>" {
		argv = CSome(CStr(c.Argv))
	}
	return CApp("mk_pobs", c.resTerm, CBool(c.InTime), argv)
}
