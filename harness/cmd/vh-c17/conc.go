package main

// Concurrency family (HOWTO lesson 7), adapted to C17: overlapping calls of
// the REAL CLIPlugin methods in ONE host process against real plugin
// processes. K goroutines, each making many calls; the five protocol commands,
// the same plugin and different plugins, one shared CLIPlugin per plugin (and
// now and then a fresh one) are mixed. Every call carries its own
// specification inside the request (pluginConfig["c17"]); the plugin process
// (this binary, reached as notation-cc-<x>) derives from it -- and from
// nothing else -- the reply it prints, its stderr and its exit code, and
// leaves a receipt (argv, digests of what it read and printed). Every call is
// judged against its OWN input:
//   * exit 0 with a reply: success, and the decoded response is exactly what
//     encoding/json makes of the bytes this process printed;
//   * failing exit: the structured error this process printed (code, message,
//     metadata), or the typed executable-file / malformed-plugin error when it
//     printed none; the response stays empty.
// Reply sizes are spread over tiny / ~64 KiB / 300-900 KiB / > 1 MiB (far
// below the cap), half of them on fixed lengths so that a byte-wise mix of
// two replies is still well-formed JSON. A share of the calls runs under a
// context logger that yields (runtime.Gosched, short sleeps) at the log lines
// between the end of the process and the decoding of its output.
// The family runs in a re-executed child process: a fatal runtime error ends
// the child, not the driver. A sample of the calls is emitted as ordinary
// cases for the Coq model; anomalies are recorded with w.ImplViolation.

import (
	"bufio"
	"bytes"
	"context"
	"crypto/sha256"
	"encoding/base64"
	"encoding/hex"
	"encoding/json"
	"errors"
	"fmt"
	"io"
	"os"
	"os/exec"
	"path/filepath"
	"reflect"
	"regexp"
	"runtime"
	"sort"
	"strings"
	"sync"
	"sync/atomic"
	"time"
	. "vh/kit"

	"github.com/notaryproject/notation-go/log"
	nplugin "github.com/notaryproject/notation-go/plugin"
	"github.com/notaryproject/notation-go/plugin/proto"
	fw "github.com/notaryproject/notation-plugin-framework-go/plugin"
)

const concBase = 1000000
const concStubPrefix = "notation-cc-"

var concPlugins = []string{"cc-alpha", "cc-beta.1", "cc-gamma", "cc-d"}

// concSpec is what one call asks its plugin process to do.
type concSpec struct {
	G       int    `json:"g"`
	N       int    `json:"n"`
	Salt    uint64 `json:"salt"`
	Size    int    `json:"size"` // bytes of the padded field of the reply
	NoOut   bool   `json:"no_out,omitempty"`
	Exit    int    `json:"exit"`
	ErrKind int    `json:"err_kind"` // 0 empty stderr, 1 structured error, 2 text
	ErrSize int    `json:"err_size"`
	ErrCode string `json:"err_code,omitempty"`
	ErrMeta bool   `json:"err_meta,omitempty"`
}

func (sp *concSpec) tag() string { return fmt.Sprintf("g%02d-n%04d-%08x", sp.G, sp.N, uint32(sp.Salt)) }
func (sp *concSpec) seed(k uint64) uint64 {
	return ((sp.Salt ^ uint64(sp.G)<<48 ^ uint64(sp.N)<<24 ^ k) * 0x9E3779B97F4A7C15) | 1
}

const concAlpha = "ABCDEFGHIJKLMNOPQRSTUVWXYZabcdefghijklmnopqrstuvwxyz0123456789-_"

func xorshift(v uint64) uint64 {
	v ^= v << 13
	v ^= v >> 7
	v ^= v << 17
	return v
}

// padText: n pseudo-random characters that need no JSON escaping.
func padText(seed uint64, n int) []byte {
	b := make([]byte, n)
	x := seed
	for i := 0; i < n; i += 8 {
		x = xorshift(x)
		v := x
		for j := 0; j < 8 && i+j < n; j++ {
			b[i+j] = concAlpha[v&63]
			v >>= 8
		}
	}
	return b
}

func padBytes(seed uint64, n int) []byte {
	b := make([]byte, n)
	x := seed
	for i := 0; i < n; i += 8 {
		x = xorshift(x)
		v := x
		for j := 0; j < 8 && i+j < n; j++ {
			b[i+j] = byte(v)
			v >>= 8
		}
	}
	return b
}

func b64(b []byte) string { return base64.StdEncoding.EncodeToString(b) }

var concKeySpecs = []string{"EC-256", "EC-384", "EC-521", "EC-256"}

// concStdout is the reply the plugin process of this call prints (all widths
// are fixed: two calls of one command, one plugin and one size print replies
// of the same length that differ almost everywhere).
func concStdout(cmd int, name string, sp *concSpec) []byte {
	if sp.NoOut {
		return nil
	}
	tag := sp.tag()
	var b bytes.Buffer
	b.Grow(sp.Size*4/3 + 600)
	switch cmd {
	case 0:
		b.WriteString(`{"name":"` + name + `","description":"conc ` + tag + ` `)
		b.Write(padText(sp.seed(1), sp.Size))
		b.WriteString(fmt.Sprintf(`","version":"1.%02d.%04d","supportedContractVersions":["1.0"],"capabilities":["SIGNATURE_GENERATOR.RAW"],"url":"https://example.com/%s"}`, sp.G, sp.N, tag))
	case 1:
		b.WriteString(`{"keyId":"` + tag + ` `)
		b.Write(padText(sp.seed(1), sp.Size))
		b.WriteString(`","keySpec":"` + concKeySpecs[sp.N%4] + `"}`)
	case 2:
		b.WriteString(`{"keyId":"` + tag + `","signature":"`)
		b.WriteString(b64(padBytes(sp.seed(2), sp.Size*3/4+9)))
		b.WriteString(`","signingAlgorithm":"ECDSA-SHA-256","certificateChain":["` + b64([]byte("cert "+tag)) + `"]}`)
	case 3:
		b.WriteString(`{"signatureEnvelope":"`)
		b.WriteString(b64(padBytes(sp.seed(3), sp.Size*3/4+9)))
		b.WriteString(`","signatureEnvelopeType":"application/jose+json","annotations":{"tag":"` + tag + `","k":"`)
		b.Write(padText(sp.seed(4), 24))
		b.WriteString(`"}}`)
	case 4:
		b.WriteString(`{"verificationResults":{"SIGNATURE_VERIFIER.TRUSTED_IDENTITY":{"success":true,"reason":"` + tag + ` `)
		b.Write(padText(sp.seed(1), sp.Size))
		b.WriteString(`"},"SIGNATURE_VERIFIER.REVOCATION_CHECK":{"success":false,"reason":"` + tag + `"}},"processedAttributes":["` + tag + `"]}`)
	}
	b.WriteByte('\n')
	return b.Bytes()
}

func concStderr(sp *concSpec) []byte {
	tag := sp.tag()
	switch sp.ErrKind {
	case 1:
		var b bytes.Buffer
		b.WriteString(`{"errorCode":"` + sp.ErrCode + `","errorMessage":"conc failure ` + tag + ` `)
		b.Write(padText(sp.seed(5), sp.ErrSize))
		b.WriteString(`"`)
		if sp.ErrMeta {
			b.WriteString(`,"errorMetadata":{"tag":"` + tag + `"}`)
		}
		b.WriteString("}")
		return b.Bytes()
	case 2:
		return []byte("conc plugin " + tag + " crashed: " + string(padText(sp.seed(6), sp.ErrSize)) + "\n")
	}
	return nil
}

func sha(b []byte) string {
	h := sha256.Sum256(b)
	return hex.EncodeToString(h[:])
}

// ---------- the plugin process ----------

func concStubMain() {
	dir := filepath.Dir(os.Args[0])
	name := strings.TrimPrefix(filepath.Base(os.Args[0]), "notation-")
	arg := ""
	if len(os.Args) > 1 {
		arg = os.Args[1]
	}
	cmd := -1
	for k, a := range cmdArgs {
		if a == arg {
			cmd = k
		}
	}
	in, _ := io.ReadAll(os.Stdin)
	var rq struct {
		PluginConfig map[string]string `json:"pluginConfig"`
	}
	var sp concSpec
	if cmd < 0 || json.Unmarshal(in, &rq) != nil || json.Unmarshal([]byte(rq.PluginConfig["c17"]), &sp) != nil {
		os.Stderr.WriteString("conc stub: no usable request\n")
		os.Exit(96)
	}
	out := concStdout(cmd, name, &sp)
	errb := concStderr(&sp)
	rc := arg + "\n" + sha(in) + "\n" + sha(out) + "\n" + sha(errb) + "\n"
	os.WriteFile(filepath.Join(dir, "rc", fmt.Sprintf("%d_%d", sp.G, sp.N)), []byte(rc), 0o644)
	os.Stderr.Write(errb)
	os.Stdout.Write(out)
	os.Exit(sp.Exit)
}

// ---------- the host side (child process) ----------

type yieldLogger struct {
	mode int // 1 Gosched, 2 sleep
	d    time.Duration
}

func (l *yieldLogger) y() {
	if l.mode == 1 {
		for i := 0; i < 4; i++ {
			runtime.Gosched()
		}
		return
	}
	time.Sleep(l.d)
}
func (l *yieldLogger) Debug(args ...interface{})                 { l.y() }
func (l *yieldLogger) Debugf(format string, args ...interface{}) { l.y() }
func (l *yieldLogger) Debugln(args ...interface{})               { l.y() }
func (l *yieldLogger) Info(args ...interface{})                  { l.y() }
func (l *yieldLogger) Infof(format string, args ...interface{})  { l.y() }
func (l *yieldLogger) Infoln(args ...interface{})                { l.y() }
func (l *yieldLogger) Warn(args ...interface{})                  { l.y() }
func (l *yieldLogger) Warnf(format string, args ...interface{})  { l.y() }
func (l *yieldLogger) Warnln(args ...interface{})                { l.y() }
func (l *yieldLogger) Error(args ...interface{})                 { l.y() }
func (l *yieldLogger) Errorf(format string, args ...interface{}) { l.y() }
func (l *yieldLogger) Errorln(args ...interface{})               { l.y() }

type concCall struct {
	ID         int64    `json:"id"`
	Fam        string   `json:"family"`
	Spec       concSpec `json:"spec"`
	Cmd        int      `json:"cmd"`
	CmdName    string   `json:"cmd_name"`
	Plugin     string   `json:"plugin_name"`
	Fresh      bool     `json:"fresh_instance"`
	Yield      string   `json:"yield"`
	YieldUs    int      `json:"yield_us,omitempty"`
	SizeClass  string   `json:"size_class"`
	PayloadLen int      `json:"payload_len"`
	OutLen     int      `json:"stdout_len"`
	ErrLen     int      `json:"stderr_len"`
	Expected   string   `json:"expected"`
	Observed   string   `json:"observed"`
	Receipt    string   `json:"receipt"`
	Overlap    int      `json:"calls_in_flight"`
	ElapsedMs  int64    `json:"elapsed_ms"`
	Anomaly    string   `json:"anomaly,omitempty"`
	Detail     string   `json:"detail,omitempty"`
	Note       string   `json:"note,omitempty"`
}

type concLine struct {
	Call    *concCall `json:"call,omitempty"`
	Term    string    `json:"term,omitempty"`
	Key     string    `json:"key,omitempty"`
	Trailer bool      `json:"trailer,omitempty"`
	Calls   int       `json:"calls,omitempty"`
	MaxFly  int       `json:"max_in_flight,omitempty"`
	K       int       `json:"goroutines,omitempty"`
}

func concDims(tier string) (k, per int) {
	if tier == "thorough" {
		return 16, 900
	}
	return 12, 150
}

func planCall(rng *Rng, g, n int) *concCall {
	c := &concCall{ID: concBase + int64(g)*10000 + int64(n), Fam: "concurrency"}
	c.Spec = concSpec{G: g, N: n, Salt: rng.U64()}
	c.Cmd = rng.Intn(5)
	c.CmdName = cmdNames[c.Cmd]
	if rng.Bool() {
		c.Plugin = concPlugins[0] // the plugin every goroutine keeps calling
	} else {
		c.Plugin = Pick(rng, concPlugins)
	}
	c.Fresh = rng.Chance(1, 5)
	r := rng.Intn(100)
	fixed := rng.Bool()
	switch {
	case r < 30:
		c.SizeClass, c.Spec.Size = "tiny", 8*rng.Intn(3)
	case r < 50:
		c.SizeClass, c.Spec.Size = "64KiB", 65536
		if !fixed {
			c.Spec.Size = 60000 + rng.Intn(8000)
		}
	case r < 85:
		c.SizeClass, c.Spec.Size = "300-900KiB", Pick(rng, []int{300000, 524288, 900000})
		if !fixed {
			c.Spec.Size = 300000 + rng.Intn(650000)
		}
	default:
		c.SizeClass, c.Spec.Size = ">1MiB", Pick(rng, []int{1100000, 1600000, 2400000})
		if !fixed {
			c.Spec.Size = 1100000 + rng.Intn(1500000)
		}
	}
	c.PayloadLen = Pick(rng, []int{16, 16, 4096, 100000})
	if rng.Chance(1, 4) {
		// a failing process
		c.Spec.Exit = 1 + rng.Intn(4)
		c.Spec.NoOut = rng.Bool()
		switch e := rng.Intn(100); {
		case e < 75:
			c.Spec.ErrKind = 1
			c.Spec.ErrCode = Pick(rng, errorCodes)
			c.Spec.ErrMeta = rng.Chance(1, 3)
		case e < 87:
			c.Spec.ErrKind = 0
		default:
			c.Spec.ErrKind = 2
		}
		switch s := rng.Intn(10); {
		case s < 6:
			c.Spec.ErrSize = 8 * rng.Intn(3)
		case s < 8:
			c.Spec.ErrSize = 65536
		default:
			c.Spec.ErrSize = Pick(rng, []int{300000, 700000})
		}
	} else {
		if rng.Chance(1, 10) {
			c.Spec.ErrKind, c.Spec.ErrSize = 2, 8*rng.Intn(3) // noise on stderr of a successful process
		}
		c.Spec.NoOut = rng.Chance(1, 50)
	}
	switch y := rng.Intn(10); {
	case y < 3:
		c.Yield = "none"
	case y < 5:
		c.Yield = "gosched"
	case y < 8:
		c.Yield, c.YieldUs = "sleep", 100+rng.Intn(400)
	default:
		c.Yield, c.YieldUs = "sleep", 1000+rng.Intn(2000)
	}
	return c
}

var concTagRe = regexp.MustCompile(`g\d\d-n\d{4}-[0-9a-f]{8}`)

func tagsIn(b []byte) string {
	seen := map[string]bool{}
	var out []string
	for _, m := range concTagRe.FindAll(b, -1) {
		if !seen[string(m)] {
			seen[string(m)] = true
			out = append(out, string(m))
			if len(out) == 6 {
				break
			}
		}
	}
	return strings.Join(out, ",")
}

func clip(s string, n int) string {
	if len(s) > n {
		return s[:n] + fmt.Sprintf("...(%d bytes)", len(s))
	}
	return s
}

func firstDiff(a, b []byte) int {
	n := len(a)
	if len(b) < n {
		n = len(b)
	}
	for i := 0; i < n; i++ {
		if a[i] != b[i] {
			return i
		}
	}
	if len(a) != len(b) {
		return n
	}
	return -1
}

func isEmptyResp(resp any) bool {
	v := reflect.ValueOf(resp)
	if !v.IsValid() || v.IsNil() {
		return true
	}
	return v.Elem().IsZero()
}

func newResp(cmd int) any {
	switch cmd {
	case 0:
		return &fw.GetMetadataResponse{}
	case 1:
		return &fw.DescribeKeyResponse{}
	case 2:
		return &fw.GenerateSignatureResponse{}
	case 3:
		return &fw.GenerateEnvelopeResponse{}
	}
	return &fw.VerifySignatureResponse{}
}

// judge compares what the call returned with what its own process printed.
func (c *concCall) judge(resp any, err error, expOut, expErr []byte) {
	own := c.Spec.tag()
	describeErr := func() string {
		if err == nil {
			return "success"
		}
		return fmt.Sprintf("%T: %s", err, clip(err.Error(), 160))
	}
	fail := func(kind, detail string) {
		if c.Anomaly == "" {
			c.Anomaly, c.Detail = kind, detail
		}
	}
	if c.Spec.Exit != 0 {
		var re proto.RequestError
		var ef *nplugin.PluginExecutableFileError
		var mf *nplugin.PluginMalformedError
		switch c.Spec.ErrKind {
		case 0:
			c.Expected = "executable-file error (failing exit, empty stderr)"
			if !errors.As(err, &ef) {
				fail("a failing process that printed nothing did not yield the executable-file error", "returned "+describeErr())
			}
		case 1:
			var pe fw.Error
			if json.Unmarshal(expErr, &pe) != nil {
				panic("harness: structured error does not decode")
			}
			c.Expected = fmt.Sprintf("request error %s %q", pe.ErrCode, clip(pe.Message, 60))
			switch {
			case !errors.As(err, &re):
				fail("a failing process did not yield the structured error it printed", "returned "+describeErr())
			case re.Code != pe.ErrCode || re.Err == nil || re.Err.Error() != pe.Message || !reflect.DeepEqual(re.Metadata, pe.Metadata):
				msg := ""
				if re.Err != nil {
					msg = re.Err.Error()
				}
				d := firstDiff([]byte(msg), []byte(pe.Message))
				fail("a failing process yielded a structured error that it did not print",
					fmt.Sprintf("own tag %s; returned code %s, message %q (len %d, first difference at byte %d), metadata %v; tags in the returned error: %s",
						own, re.Code, clip(msg, 80), len(msg), d, re.Metadata, tagsIn([]byte(msg+fmt.Sprint(re.Metadata)))))
			}
		case 2:
			c.Expected = "malformed-plugin error (failing exit, stderr is not a structured error)"
			if !errors.As(err, &mf) || errors.As(err, &re) {
				fail("a failing process that printed no structured error did not yield the malformed-plugin error", "returned "+describeErr())
			}
		}
		if err != nil && !isEmptyResp(resp) {
			b, _ := json.Marshal(resp)
			fail("a failing call returned a non-empty response", "own tag "+own+"; tags in the response: "+tagsIn(b)+"; response "+clip(string(b), 200))
		}
		if err == nil {
			fail("a call succeeded although its process exited with a failure", fmt.Sprintf("exit code %d", c.Spec.Exit))
		}
		return
	}
	if c.Spec.NoOut {
		var mf *nplugin.PluginMalformedError
		c.Expected = "malformed-plugin error (exit 0, empty stdout)"
		if !errors.As(err, &mf) {
			fail("a process that printed no reply did not yield the malformed-plugin error", "returned "+describeErr())
		}
		return
	}
	c.Expected = "success with the reply of " + own
	if err != nil {
		fail("a call failed although its process printed a valid reply and exited 0", "own tag "+own+"; returned "+describeErr()+"; tags in the error: "+tagsIn([]byte(err.Error())))
		return
	}
	exp := newResp(c.Cmd)
	if e := json.Unmarshal(expOut, exp); e != nil {
		panic("harness: expected reply does not decode: " + e.Error())
	}
	if !reflect.DeepEqual(resp, exp) {
		got, _ := json.Marshal(resp)
		want, _ := json.Marshal(exp)
		fail("a call succeeded with a reply that its own process never printed",
			fmt.Sprintf("own tag %s; tags in the returned response: %s; re-encoded response differs from the printed one at byte %d (lengths %d / %d); returned %s",
				own, tagsIn(got), firstDiff(got, want), len(got), len(want), clip(string(got), 160)))
	}
}

func concChild(a *Args, outPath string) error {
	self, err := os.Executable()
	if err != nil {
		return err
	}
	root := filepath.Join(a.Out, "plugins")
	defer os.RemoveAll(root)
	paths := map[string]string{}
	shared := map[string]*nplugin.CLIPlugin{}
	for _, nm := range concPlugins {
		dir := filepath.Join(root, nm)
		if err := os.MkdirAll(filepath.Join(dir, "rc"), 0o755); err != nil {
			return err
		}
		p := filepath.Join(dir, "notation-"+nm)
		if err := os.Symlink(self, p); err != nil {
			return err
		}
		paths[nm] = p
		cp, err := nplugin.NewCLIPlugin(context.Background(), nm, p)
		if err != nil {
			return err
		}
		shared[nm] = cp
	}
	f, err := os.Create(outPath)
	if err != nil {
		return err
	}
	bw := bufio.NewWriterSize(f, 1<<20)
	var mu sync.Mutex
	emit := func(l *concLine) {
		b, _ := json.Marshal(l)
		mu.Lock()
		bw.Write(b)
		bw.WriteByte('\n')
		mu.Unlock()
	}
	K, per := concDims(a.Tier)
	var inFlight, maxFly, calls int64
	base := NewRng(a.Seed)
	var wg sync.WaitGroup
	for g := 0; g < K; g++ {
		wg.Add(1)
		go func(g int) {
			defer wg.Done()
			rng := base.Fork(uint64(1000 + g))
			for n := 0; n < per; n++ {
				c := planCall(rng, g, n)
				line := concOne(c, shared[c.Plugin], paths[c.Plugin], &inFlight, &maxFly)
				atomic.AddInt64(&calls, 1)
				emit(line)
			}
		}(g)
	}
	wg.Wait()
	emit(&concLine{Trailer: true, Calls: int(calls), MaxFly: int(maxFly), K: K})
	bw.Flush()
	return f.Close()
}

// concOne makes one call and judges it.
func concOne(c *concCall, sharedP *nplugin.CLIPlugin, path string, inFlight, maxFly *int64) (line *concLine) {
	line = &concLine{Call: c}
	sp := &c.Spec
	tag := sp.tag()
	expOut := concStdout(c.Cmd, c.Plugin, sp)
	expErr := concStderr(sp)
	c.OutLen, c.ErrLen = len(expOut), len(expErr)
	ctx := context.Background()
	switch c.Yield {
	case "gosched":
		ctx = log.WithLogger(ctx, &yieldLogger{mode: 1})
	case "sleep":
		ctx = log.WithLogger(ctx, &yieldLogger{mode: 2, d: time.Duration(c.YieldUs) * time.Microsecond})
	}
	sj, _ := json.Marshal(sp)
	cfg := map[string]string{"c17": string(sj)}
	payload := padBytes(sp.seed(9), c.PayloadLen)
	var resp, req any
	var cerr error
	var elapsed time.Duration
	func() {
		defer func() {
			if r := recover(); r != nil {
				c.Anomaly, c.Detail = "a plugin call panicked", clip(fmt.Sprint(r), 300)
				cerr = fmt.Errorf("panic: %v", r)
			}
		}()
		p := sharedP
		if c.Fresh {
			var e error
			if p, e = nplugin.NewCLIPlugin(ctx, c.Plugin, path); e != nil {
				panic("NewCLIPlugin: " + e.Error())
			}
		}
		now := atomic.AddInt64(inFlight, 1)
		for {
			m := atomic.LoadInt64(maxFly)
			if now <= m || atomic.CompareAndSwapInt64(maxFly, m, now) {
				break
			}
		}
		c.Overlap = int(now)
		start := time.Now()
		defer func() {
			elapsed = time.Since(start)
			if left := atomic.AddInt64(inFlight, -1) + 1; int(left) > c.Overlap {
				c.Overlap = int(left)
			}
		}()
		switch c.Cmd {
		case 0:
			r := &fw.GetMetadataRequest{PluginConfig: cfg}
			req = r
			v, e := p.GetMetadata(ctx, r)
			resp, cerr = v, e
		case 1:
			r := &fw.DescribeKeyRequest{KeyID: tag, PluginConfig: cfg}
			req = r
			v, e := p.DescribeKey(ctx, r)
			resp, cerr = v, e
		case 2:
			r := &fw.GenerateSignatureRequest{KeyID: tag, KeySpec: fw.KeySpecEC256, Hash: fw.HashAlgorithmSHA256, Payload: payload, PluginConfig: cfg}
			req = r
			v, e := p.GenerateSignature(ctx, r)
			resp, cerr = v, e
		case 3:
			r := &fw.GenerateEnvelopeRequest{KeyID: tag, PayloadType: "application/vnd.cncf.notary.payload.v1+json", SignatureEnvelopeType: "application/jose+json", Payload: payload, PluginConfig: cfg}
			req = r
			v, e := p.GenerateEnvelope(ctx, r)
			resp, cerr = v, e
		case 4:
			r := &fw.VerifySignatureRequest{Signature: fw.Signature{CriticalAttributes: fw.CriticalAttributes{ContentType: "application/vnd.cncf.notary.payload.v1+json", SigningScheme: "notary.x509"}, CertificateChain: [][]byte{payload}}, PluginConfig: cfg}
			req = r
			v, e := p.VerifySignature(ctx, r)
			resp, cerr = v, e
		}
	}()
	c.ElapsedMs = elapsed.Milliseconds()
	label, resTerm := classify(cerr)
	c.Observed = clip(label, 120)
	// the receipt of the process
	argv := "<none>"
	rcPath := filepath.Join(filepath.Dir(path), "rc", fmt.Sprintf("%d_%d", sp.G, sp.N))
	if b, e := os.ReadFile(rcPath); e == nil {
		os.Remove(rcPath)
		ls := strings.Split(string(b), "\n")
		if len(ls) >= 4 {
			argv = ls[0]
			rb, _ := json.Marshal(req)
			c.Receipt = "process ran: argv " + argv
			switch {
			case ls[1] != sha(rb):
				c.Receipt += "; it did NOT read the request of this call"
				if c.Anomaly == "" {
					c.Anomaly, c.Detail = "the plugin process of a call did not receive the request of that call", "digest of its stdin differs from the digest of the marshalled request"
				}
			case ls[2] != sha(expOut) || ls[3] != sha(expErr):
				c.Receipt += "; it printed something else than the harness expects (harness defect)"
				if c.Anomaly == "" {
					c.Anomaly = "harness: the stub printed something else than the expected bytes"
				}
			default:
				c.Receipt += fmt.Sprintf("; read this call's request, printed %d bytes on stdout (sha256 %s) and %d on stderr, exit %d", len(expOut), sha(expOut)[:16], len(expErr), sp.Exit)
			}
		}
	} else {
		c.Receipt = "no receipt: the process did not run or did not understand its request"
	}
	if c.Anomaly == "" {
		c.judge(resp, cerr, expOut, expErr)
	} else if c.Expected == "" {
		c.Expected = "(not judged: " + c.Anomaly + ")"
	}
	bound := int64(waitDelayMs + slackMs)
	inTime := c.ElapsedMs <= bound
	if !inTime {
		c.Note = fmt.Sprintf("returned after %d ms", c.ElapsedMs)
	}
	// a sample goes to the Coq model as an ordinary case (small terms only)
	small := (c.Cmd != 0 || sp.Size <= 64) && (sp.ErrKind != 1 || sp.ErrSize <= 64)
	if small && (sp.N%5 == 0 || c.Anomaly != "") {
		pc := &procCase{ID: c.ID, Fam: "concurrency", Cmd: c.Cmd, CmdName: c.CmdName, Name: c.Plugin, File: "FExec", Exit: sp.Exit,
			DescMs: -1, DeadlineMs: -1, Out: string(expOut), Err: string(expErr)}
		pc.setBound()
		in := pc.inputTerm()
		pc.Result, pc.resTerm = label, resTerm
		pc.InTime, pc.Argv = inTime, argv
		if t := CApp("mk_case", CN(c.ID), CApp("IProc", in), CApp("OProc", pc.obsTerm())); len(t) < 6000 {
			line.Term = t
			line.Key = fmt.Sprintf("conc|%d|%s|%s", c.Cmd, c.Plugin, string(sj))
		}
	}
	return line
}

// ---------- the driver side ----------

// runConcFamily re-executes the driver as a child for the concurrency family
// and turns its results into cases and violations. A replay of a concurrency
// id runs the whole family again (a single call cannot overlap anything).
func runConcFamily(a *Args, w *CaseWriter) {
	if a.Only >= 0 && a.Only < concBase {
		return
	}
	sub := filepath.Join(a.Out, "conc")
	out := filepath.Join(a.Out, "conc_child.jsonl")
	defer os.RemoveAll(sub)
	ctx, cancel := context.WithTimeout(context.Background(), 8*time.Minute)
	defer cancel()
	cmd := exec.CommandContext(ctx, selfPath, "--tier", a.Tier, "--seed", fmt.Sprint(a.Seed), "--out", sub, "conc-child", out)
	cmd.WaitDelay = 5 * time.Second
	t0 := time.Now()
	msg, err := cmd.CombinedOutput()
	w.Set("concurrency_family_seconds", float64(time.Since(t0).Milliseconds())/1000)
	done := false
	var lines []*concLine
	if f, e := os.Open(out); e == nil {
		sc := bufio.NewScanner(f)
		sc.Buffer(make([]byte, 1<<20), 1<<26)
		for sc.Scan() {
			var l concLine
			if json.Unmarshal(sc.Bytes(), &l) != nil {
				continue
			}
			if l.Trailer {
				done = true
				w.Set("concurrent_calls", l.Calls)
				w.Set("concurrent_goroutines", l.K)
				w.Set("concurrent_max_calls_in_flight", l.MaxFly)
				continue
			}
			if l.Call != nil {
				lines = append(lines, &l)
			}
		}
		f.Close()
		os.Remove(out)
	}
	sort.Slice(lines, func(i, j int) bool { return lines[i].Call.ID < lines[j].Call.ID })
	nViol := 0
	for _, l := range lines {
		c := l.Call
		w.Count("conc_size_class", c.SizeClass)
		w.Count("conc_command", c.CmdName)
		w.Count("conc_plugin", c.Plugin)
		w.Count("conc_yield", c.Yield)
		w.Count("conc_expected", strings.SplitN(c.Expected, " ", 2)[0])
		w.Count("conc_in_flight", fmt.Sprint(c.Overlap))
		if l.Term != "" {
			w.Add(c.ID, l.Term, c, l.Key, c.Overlap >= 2)
			w.Count("family", "concurrency")
			w.Count("command", c.CmdName)
			w.Count("result", strings.SplitN(c.Observed, " ", 2)[0])
		}
		if c.Anomaly != "" {
			w.Count("conc_anomaly", c.Anomaly)
			if nViol < 40 {
				w.ImplViolation(c.ID, "overlapping plugin calls in one process: "+c.Anomaly, c, "conc-reply")
			}
			nViol++
		}
	}
	if err != nil || !done {
		tail := string(msg)
		if len(tail) > 3000 {
			tail = tail[:3000]
		}
		w.ImplViolation(concBase+999999, "overlapping plugin calls ended the host process (fatal runtime error, panic outside a call, or timeout)",
			map[string]any{"family": "concurrency", "error": fmt.Sprint(err), "output": tail}, "conc-fatal")
	}
}
