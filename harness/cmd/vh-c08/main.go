package main

// C08 driver: runs the real OCIDocument.GetApplicableTrustPolicy,
// BlobDocument.GetApplicableTrustPolicy / GetGlobalTrustPolicy and, for
// documents the real Validate() accepts, the real verifier (SkipVerify, Verify,
// VerifyBlob with a genuine signature envelope and an instrumented trust store)
// on generated (document, permutation, query) triples; after each selection it
// writes through the statement it was handed and selects again. Prints
// (input, observation) cases for C08_Model.

import (
	"context"
	"fmt"
	"reflect"
	"sort"
	"strings"
	"time"
	. "vh/kit"

	revresult "github.com/notaryproject/notation-core-go/revocation/result"
	"github.com/notaryproject/notation-go"
	"github.com/notaryproject/notation-go/verifier"
	"github.com/notaryproject/notation-go/verifier/trustpolicy"
	"github.com/opencontainers/go-digest"
	ocispec "github.com/opencontainers/image-spec/specs-go/v1"
)

func main() { Main("c08", runC08) }

// ---------- descriptions (what is printed into the replay files) ----------

type stmtD struct {
	Name     string            `json:"name"`
	Scopes   []string          `json:"scopes,omitempty"`
	Level    string            `json:"level"`
	Override map[string]string `json:"override,omitempty"`
	VTS      string            `json:"verifyTimestamp,omitempty"`
	Stores   []string          `json:"stores,omitempty"`
	Ids      []string          `json:"identities,omitempty"`
	Global   bool              `json:"global,omitempty"`
}

type queryD struct {
	Kind string `json:"kind"` // oci | name | global
	Arg  string `json:"arg"`
}

type wrD struct {
	Op string `json:"op"` // name level vts global elem fill append mapset mapdel mapfill
	F  string `json:"field,omitempty"`
	I  int    `json:"index,omitempty"`
	K  string `json:"key,omitempty"`
	V  string `json:"value,omitempty"`
	B  bool   `json:"bool,omitempty"`
}

type caseD struct {
	Family string  `json:"family"`
	Blob   bool    `json:"blob_document"`
	Doc    []stmtD `json:"document"`
	Q1     queryD  `json:"first_selection"`
	WAll   string  `json:"overwrite_everything_with,omitempty"`
	WS     []wrD   `json:"writes_through_result,omitempty"`
	Q2     queryD  `json:"later_selection"`
	Ver    bool    `json:"verifier_level"`
	Rep    bool    `json:"empty_values_are_non_nil,omitempty"` // empty slices / maps of the document are []string{} / map{} instead of nil
	Hist   string  `json:"history,omitempty"`                  // step k of n on ONE long-lived document and ONE long-lived verifier
	// observation
	Accepted bool   `json:"validate_accepted"`
	R1       string `json:"obs_first"`
	R2       string `json:"obs_later"`
	Same     bool   `json:"obs_document_unchanged"`
	SV       int    `json:"obs_skipverify"`
	VerObs   string `json:"obs_verify"`
}

// ---------- building the real documents ----------

func buildSV(s stmtD, rep bool) trustpolicy.SignatureVerification {
	sv := trustpolicy.SignatureVerification{VerificationLevel: s.Level, VerifyTimestamp: trustpolicy.TimestampOption(s.VTS)}
	if len(s.Override) > 0 || rep {
		sv.Override = map[trustpolicy.ValidationType]trustpolicy.ValidationAction{}
		for k, v := range s.Override {
			sv.Override[trustpolicy.ValidationType(k)] = trustpolicy.ValidationAction(v)
		}
	}
	return sv
}

func cp(xs []string) []string { return cpr(xs, false) }

// cpr copies xs; an empty xs becomes nil, or an empty non-nil slice when rep is set.
func cpr(xs []string, rep bool) []string {
	if len(xs) == 0 {
		if rep {
			return []string{}
		}
		return nil
	}
	return append([]string(nil), xs...)
}

func buildOCI(d []stmtD, rep bool) *trustpolicy.OCIDocument {
	doc := &trustpolicy.OCIDocument{Version: "1.0"}
	for _, s := range d {
		doc.TrustPolicies = append(doc.TrustPolicies, trustpolicy.OCITrustPolicy{
			Name: s.Name, RegistryScopes: cpr(s.Scopes, rep), SignatureVerification: buildSV(s, rep),
			TrustStores: cpr(s.Stores, rep), TrustedIdentities: cpr(s.Ids, rep)})
	}
	return doc
}

func buildBlob(d []stmtD, rep bool) *trustpolicy.BlobDocument {
	doc := &trustpolicy.BlobDocument{Version: "1.0"}
	for _, s := range d {
		doc.TrustPolicies = append(doc.TrustPolicies, trustpolicy.BlobTrustPolicy{
			Name: s.Name, SignatureVerification: buildSV(s, rep),
			TrustStores: cpr(s.Stores, rep), TrustedIdentities: cpr(s.Ids, rep), GlobalPolicy: s.Global})
	}
	return doc
}

// handle gives uniform access to the mutable parts of a returned statement.
type handle struct {
	name   *string
	sv     *trustpolicy.SignatureVerification
	global *bool
	scopes *[]string
	stores *[]string
	ids    *[]string
}

func (h *handle) view() stmtD {
	s := stmtD{Name: *h.name, Level: h.sv.VerificationLevel, VTS: string(h.sv.VerifyTimestamp)}
	if len(h.sv.Override) > 0 {
		s.Override = map[string]string{}
		for k, v := range h.sv.Override {
			s.Override[string(k)] = string(v)
		}
	}
	if h.scopes != nil {
		s.Scopes = cp(*h.scopes)
	}
	s.Stores = cp(*h.stores)
	s.Ids = cp(*h.ids)
	if h.global != nil {
		s.Global = *h.global
	}
	return s
}

func (h *handle) field(f string) *[]string {
	switch f {
	case "FScopes":
		return h.scopes
	case "FStores":
		return h.stores
	case "FIds":
		return h.ids
	}
	return nil
}

func (h *handle) apply(w wrD) {
	switch w.Op {
	case "name":
		*h.name = w.V
	case "level":
		h.sv.VerificationLevel = w.V
	case "vts":
		h.sv.VerifyTimestamp = trustpolicy.TimestampOption(w.V)
	case "global":
		if h.global != nil {
			*h.global = w.B
		}
	case "elem":
		if p := h.field(w.F); p != nil && w.I < len(*p) {
			(*p)[w.I] = w.V
		}
	case "fill":
		if p := h.field(w.F); p != nil {
			for i := range *p {
				(*p)[i] = w.V
			}
		}
	case "append":
		if p := h.field(w.F); p != nil {
			*p = append(*p, w.V)
		}
	case "mapset":
		if h.sv.Override == nil {
			h.sv.Override = map[trustpolicy.ValidationType]trustpolicy.ValidationAction{trustpolicy.ValidationType(w.K): trustpolicy.ValidationAction(w.V)}
		} else {
			h.sv.Override[trustpolicy.ValidationType(w.K)] = trustpolicy.ValidationAction(w.V)
		}
	case "mapdel":
		delete(h.sv.Override, trustpolicy.ValidationType(w.K))
	case "mapfill":
		for k := range h.sv.Override {
			h.sv.Override[k] = trustpolicy.ValidationAction(w.V)
		}
	}
}

// wall mirrors C08_Model.wall.
func wall(v string) []wrD {
	return []wrD{{Op: "fill", F: "FScopes", V: v}, {Op: "fill", F: "FStores", V: v}, {Op: "fill", F: "FIds", V: v},
		{Op: "mapfill", V: v}, {Op: "mapset", K: "revocation", V: v}, {Op: "mapset", K: v, V: v},
		{Op: "name", V: v}, {Op: "level", V: v}, {Op: "vts", V: v},
		{Op: "append", F: "FScopes", V: v}, {Op: "append", F: "FStores", V: v}, {Op: "append", F: "FIds", V: v}}
}

// ---------- Gallina printing ----------

func stmtTerm(s stmtD) string {
	return CApp("mk_stmt", CStr(s.Name), CStrList(s.Scopes),
		CApp("mk_sv", CStr(s.Level), CMap(s.Override), CStr(s.VTS)),
		CStrList(s.Stores), CStrList(s.Ids), CBool(s.Global))
}

func docTerm(d []stmtD) string {
	items := make([]string, len(d))
	for i, s := range d {
		items[i] = stmtTerm(s)
	}
	return CList(items)
}

func queryTerm(q queryD) string {
	switch q.Kind {
	case "oci":
		return CApp("QOci", CStr(q.Arg))
	case "name":
		return CApp("QName", CStr(q.Arg))
	}
	return "QGlobal"
}

func wrTerm(w wrD) string {
	switch w.Op {
	case "name":
		return CApp("WName", CStr(w.V))
	case "level":
		return CApp("WLevel", CStr(w.V))
	case "vts":
		return CApp("WVts", CStr(w.V))
	case "global":
		return CApp("WGlobal", CBool(w.B))
	case "elem":
		return CApp("WElem", w.F, fmt.Sprint(w.I), CStr(w.V))
	case "fill":
		return CApp("WFill", w.F, CStr(w.V))
	case "append":
		return CApp("WAppend", w.F, CStr(w.V))
	case "mapset":
		return CApp("WMapSet", CStr(w.K), CStr(w.V))
	case "mapdel":
		return CApp("WMapDel", CStr(w.K))
	case "mapfill":
		return CApp("WMapFill", CStr(w.V))
	}
	panic("wrTerm: " + w.Op)
}

// errCode maps the error of a selection function to the class numbers of
// C08_Model.res by stable tokens of the messages.
func errCode(err error) int {
	m := err.Error()
	switch {
	case strings.Contains(m, "could not be parsed"):
		return 1
	case strings.Contains(m, "is not valid, make sure it is a fully qualified repository"):
		return 2
	case strings.Contains(m, "has no applicable oci trust policy statement"):
		return 3
	case strings.Contains(m, "policy name cannot be empty"):
		return 4
	case strings.Contains(m, "no applicable blob trust policy with name"):
		return 5
	case strings.Contains(m, "no global blob trust policy"):
		return 6
	}
	return 0
}

// ---------- verifier level ----------

type verEnv struct {
	env  []byte
	desc ocispec.Descriptor
	rev  *RevScript
}

func newVerEnv() *verEnv {
	now := time.Now()
	chain := NewChain("c08", 2, now.Add(-48*time.Hour), now.Add(48*time.Hour))
	desc := ocispec.Descriptor{MediaType: "application/vnd.oci.image.manifest.v1+json",
		Digest: digest.Digest("sha256:9834876dcfb05cb167a5c24953eba58c4ac89b1adf57f28f2f9d09af107ee8f0"), Size: 528}
	env, err := SignEnvelope(EnvSpec{Format: MtJWS, Chain: chain, Payload: PayloadFor(desc), SigningTime: now.Add(-time.Hour)})
	if err != nil {
		panic(err)
	}
	if _, err := CoreVerify(MtJWS, env); err != nil {
		panic(fmt.Sprintf("c08: notation-core-go does not verify the envelope: %v", err))
	}
	ok := []*revresult.CertRevocationResult{{Result: revresult.ResultOK}, {Result: revresult.ResultOK}}
	rev, _ := NewRevScript(ok, nil)
	return &verEnv{env: env, desc: desc, rev: rev}
}

// verInst is ONE verifier (with its own instance of the document) and its instrumented trust store.
type fullVerifier interface {
	Verify(ctx context.Context, desc ocispec.Descriptor, signature []byte, opts notation.VerifierVerifyOptions) (*notation.VerificationOutcome, error)
	VerifyBlob(ctx context.Context, descGenFunc notation.BlobDescriptorGenerator, signature []byte, opts notation.BlobVerifierVerifyOptions) (*notation.VerificationOutcome, error)
	SkipVerify(ctx context.Context, opts notation.VerifierVerifyOptions) (bool, *trustpolicy.VerificationLevel, error)
}

type verInst struct {
	v     fullVerifier
	store *MockStore
	blob  bool
}

func (e *verEnv) newVerifier(blob bool, d []stmtD, rep bool) *verInst {
	store := NewMockStore() // empty: every consulted store fails, the consultation is recorded
	opts := verifier.VerifierOptions{RevocationCodeSigningValidator: e.rev.Validator()}
	if blob {
		opts.BlobTrustPolicy = buildBlob(d, rep)
	} else {
		opts.OCITrustPolicy = buildOCI(d, rep)
	}
	v, err := verifier.NewVerifierWithOptions(store, opts)
	if err != nil {
		panic(fmt.Sprintf("c08: verifier construction on an accepted document: %v", err))
	}
	return &verInst{v: v, store: store, blob: blob}
}

// observe builds a fresh verifier and observes one query on it.
func (e *verEnv) observe(blob bool, d []stmtD, rep bool, q queryD) (int, string, string) {
	return e.observeOn(e.newVerifier(blob, d, rep), q)
}

// observeOn returns (skipverify code, vres term, vres description) of one query on a (possibly long-lived) verifier.
func (e *verEnv) observeOn(vi *verInst, q queryD) (int, string, string) {
	store := vi.store
	base := len(store.Calls)
	ctx := context.Background()
	sv := 9
	var outcome *notation.VerificationOutcome
	var err error
	if vi.blob {
		name := q.Arg
		if q.Kind == "global" {
			name = ""
		}
		outcome, err = vi.v.VerifyBlob(ctx, func(digest.Algorithm) (ocispec.Descriptor, error) { return e.desc, nil }, e.env,
			notation.BlobVerifierVerifyOptions{SignatureMediaType: MtJWS, TrustPolicyName: name})
	} else {
		skip, _, serr := vi.v.SkipVerify(ctx, notation.VerifierVerifyOptions{ArtifactReference: q.Arg})
		switch {
		case serr != nil && ErrClass(serr) == "nopolicy":
			sv = 0
		case serr != nil:
			sv = 3
		case skip:
			sv = 1
		default:
			sv = 2
		}
		outcome, err = vi.v.Verify(ctx, e.desc, e.env, notation.VerifierVerifyOptions{ArtifactReference: q.Arg, SignatureMediaType: MtJWS})
	}
	calls := store.Calls[base:]
	switch {
	case outcome == nil && err != nil && ErrClass(err) == "nopolicy":
		return sv, "VNoPolicy", "nopolicy"
	case outcome == nil:
		return sv, "VOther", "other:" + Short(fmt.Sprint(err), 80)
	case outcome.VerificationLevel != nil && outcome.VerificationLevel.Name == "skip" && err == nil && len(calls) == 0:
		return sv, "VSkip", "skip"
	}
	for _, c := range calls {
		if string(c.Type) == "ca" {
			return sv, CApp("VUsed", CSome(CStr(c.Name))), "used:ca:" + c.Name
		}
	}
	return sv, "(VUsed None)", "used:-"
}

// ---------- generators ----------

const dig1 = "sha256:9834876dcfb05cb167a5c24953eba58c4ac89b1adf57f28f2f9d09af107ee8f0"
const dig2 = "sha256:aa"

var scopeAlphabet = []string{
	"reg.io/a/b", "reg.io/a/b/c", "reg.io/a/bc", "reg.io/a", "REG.io/a/b", "reg.io:80/a/b", "reg.io.evil/a/b",
	"reg.io/b", "g.io/a/b", "reg.io/a/b-c", "reg.io/a/b_c", "reg.io/ab", "reg.io/a/b/c/d", "io/a/b",
	"reg.io:8080/a/b", "localhost:5000/a", "reg.io/a.b", "reg.io/a/b/b", "a/b", "reg.io/a/a/b",
}

var malformedRefs = []string{
	"", "@", "@" + dig1, "reg.io@" + dig1, "/a@" + dig1, "reg.io/@" + dig1, "*@" + dig1, "reg.io/*@" + dig1, "*/a@" + dig1,
	"reg.io/a/b", "reg.io/a/b:v1", "reg.io/a/b:v1@" + dig1, "reg.io/a/b@", "reg.io/a/b @" + dig1, " reg.io/a/b@" + dig1,
	"reg.io/a//b@" + dig1, "reg.io/a/b/@" + dig1, "reg.io/A/B@" + dig1, "reg.io/a/B@" + dig1, "reg.io/a__b@" + dig1,
	"reg.io/a___b@" + dig1, "reg.io/a--b@" + dig1, "reg.io/a..b@" + dig1, "-reg.io/a@" + dig1, "reg.io:/a@" + dig1,
	"reg.io:80:80/a@" + dig1, "reg.io/a/b@x@" + dig1, "reg.io/a/b@" + dig1 + "@" + dig1, "reg.io/a@reg.io/a/b@" + dig1,
	"https://reg.io/a/b@" + dig1, "reg.io/a/b\x00@" + dig1, "reg.io/\xc3\xa4@" + dig1, "reg.io/a/b\n@" + dig1,
	"reg.io/a/b@" + dig2, "REG.IO/a/b@" + dig1, "reg.io./a/b@" + dig1, "reg..io/a/b@" + dig1, "reg.io/a/b.@" + dig1,
	"reg.io/-a@" + dig1, "reg.io/a-@" + dig1, "reg.io/a_-b@" + dig1, "reg.io/a-_b@" + dig1, "reg_io/a@" + dig1,
}

var levels = []string{"strict", "permissive", "audit", "skip"}
var overrides = []map[string]string{nil, nil, {"revocation": "skip"}, {"expiry": "log", "authenticity": "log"}, {"revocation": "log"}, {"authenticTimestamp": "log"}}
var vtss = []string{"", "", "always", "afterCertExpiry"}
var idPool = []string{"x509.subject: C=US, ST=WA, O=org1", "x509.subject: C=US, ST=WA, O=org2", "x509.subject: C=DE, ST=BY, O=org3, CN=x"}

// content fills the non-selecting part of statement k (distinct first "ca" store per statement).
func content(r *Rng, k int, s *stmtD) {
	s.Level = levels[r.Intn(4)]
	if r.Chance(1, 2) {
		s.Level = "strict"
	}
	if s.Level == "skip" {
		return
	}
	s.Override = overrides[r.Intn(len(overrides))]
	s.VTS = vtss[r.Intn(len(vtss))]
	ca := fmt.Sprintf("ca:k%d", k)
	switch r.Intn(6) {
	case 0:
		s.Stores = []string{ca, fmt.Sprintf("signingAuthority:k%d", k)}
	case 1:
		s.Stores = []string{fmt.Sprintf("signingAuthority:k%d", k), ca}
	case 2:
		s.Stores = []string{ca, "ca:shared"}
	case 3:
		s.Stores = []string{fmt.Sprintf("signingAuthority:k%d", k)}
	default:
		s.Stores = []string{ca}
	}
	switch r.Intn(4) {
	case 0:
		s.Ids = []string{idPool[r.Intn(len(idPool))]}
	case 1:
		s.Ids = []string{idPool[0], idPool[2]}
	default:
		s.Ids = []string{"*"}
	}
}

func permutations(n int) [][]int {
	var out [][]int
	p := make([]int, n)
	for i := range p {
		p[i] = i
	}
	var rec func(k int)
	rec = func(k int) {
		if k == n {
			out = append(out, append([]int(nil), p...))
			return
		}
		for i := k; i < n; i++ {
			p[k], p[i] = p[i], p[k]
			rec(k + 1)
			p[k], p[i] = p[i], p[k]
		}
	}
	rec(0)
	return out
}

func permute(d []stmtD, p []int) []stmtD {
	out := make([]stmtD, len(d))
	for i, j := range p {
		out[i] = d[j]
	}
	return out
}

func randomWrites(r *Rng, blob bool) []wrD {
	fields := []string{"FScopes", "FStores", "FIds"}
	if blob {
		fields = fields[1:]
	}
	vals := []string{"x", "*", "reg.io/a/b", "ca:evil", "skip", "log", "enforce", "a"}
	keys := []string{"revocation", "expiry", "authenticity", "authenticTimestamp", "x"}
	n := 1 + r.Intn(3)
	var ws []wrD
	for i := 0; i < n; i++ {
		v := Pick(r, vals)
		switch r.Intn(10) {
		case 0:
			ws = append(ws, wrD{Op: "name", V: v})
		case 1:
			ws = append(ws, wrD{Op: "level", V: v})
		case 2:
			ws = append(ws, wrD{Op: "vts", V: v})
		case 3:
			if blob {
				ws = append(ws, wrD{Op: "global", B: r.Bool()})
			} else {
				ws = append(ws, wrD{Op: "elem", F: "FScopes", I: r.Intn(3), V: v})
			}
		case 4:
			ws = append(ws, wrD{Op: "elem", F: Pick(r, fields), I: r.Intn(3), V: v})
		case 5:
			ws = append(ws, wrD{Op: "fill", F: Pick(r, fields), V: v})
		case 6:
			ws = append(ws, wrD{Op: "append", F: Pick(r, fields), V: v})
		case 7:
			ws = append(ws, wrD{Op: "mapset", K: Pick(r, keys), V: v})
		case 8:
			ws = append(ws, wrD{Op: "mapdel", K: Pick(r, keys)})
		case 9:
			ws = append(ws, wrD{Op: "mapfill", V: v})
		}
	}
	return ws
}

func runC08(a *Args) error {
	rng := NewRng(a.Seed)
	prelude := "From NV Require Import Base C08_Model.\nOpen Scope string_scope.\n"
	w := NewCaseWriter(a, "C08", prelude, "case", "run")
	w.Rule = "OCI: documents of 1-4 statements over a scope alphabet of nested / sibling / port-qualified / case-variant / near-identical repository paths (with and without a wildcard statement, plus documents violating one validity rule), every permutation of the statements, references = every listed scope, prefix / extension / sibling / case / port variants of listed scopes, unlisted scopes, tag-only, tag+digest, several '@', malformed; blob: documents over a name alphabet (case / blank-padded / prefix variants), every permutation, queries by listed / near-miss / blank (ASCII and Unicode white space) names and for the global statement; fuzzed registry/repository strings against a wildcard-only document. After the first selection the driver writes through the statement it received (all slices, override map, scalar fields, appends) and selects again; for accepted documents a third of the cases also run SkipVerify / Verify / VerifyBlob with a genuine envelope. non-trivial = the query is not refused as malformed and (the document has >= 2 statements or the result was written through); distinct = distinct (document order, queries, writes) tuples; ADDED: empty slices / maps of the document as nil or as empty non-nil objects (a third of all cases + a fixed family); the matching scope at every position of a 3-4 scope statement x every permutation of the document; rarely used legal registry / repository / digest syntax; HISTORIES: one long-lived document object and one long-lived verifier answering 5-8 calls in sequence whose expected answers differ (same registry / other repository, wildcard, other registry, refused, back), each step emitted as its own case judged on its own input; BLANK-NAMED: blob documents accepted by Validate() that contain a statement whose name is white space only, asked for exactly that name (witness of C08_blob_name_full_refuted: refused with error 4); NEAR-VALID (Go-side oracle, one id per document): 21 documents breaking exactly one validity rule (two / three wildcard statements with different content, the same scope in two / three statements, wildcard mixed with a scope, duplicate names, two / three global blob statements), EVERY order of their statements, listed / unlisted / extension / malformed references resp. every name, the global query and an unknown name: either Validate() / NewVerifierWithOptions refuses the document, or every selection (and SkipVerify / Verify / VerifyBlob) is the same under every permutation and obeys the exact-match / unique-wildcard / unique-name / unique-global rule; an accepted document with order-dependent selection is an implementation violation carrying the document, the two orders and the query"
	w.Assumptions = []string{
		"error classes of the selection functions are recognised from stable tokens of their messages",
		"the statement the verifier used is recognised from the first trust store of type ca it asks the injected trust store for (x509 signing scheme, genuine JWS envelope); statements are given distinct first ca stores",
		"documents are built as Go structs (not through JSON); validity of documents is C09's subject: the real Validate() verdict is an input, and accepted documents are checked to have unique scopes, unique names, at most one global statement, and wildcard statements whose only scope is the wildcard (C08_Model.valid_doc)",
		"appending through a returned slice is modelled as allocating a new array (spare capacity is invisible through the document's slice headers)",
	}
	thorough := a.Tier == "thorough"
	var ve *verEnv
	var id int64

	// one document object (and its pristine twin) with its selection function
	type instance struct {
		docObj, pristine any
		accepted         bool
		sel              func(q queryD) (*handle, error)
	}
	newInstance := func(blob bool, d []stmtD, rep bool) *instance {
		in := &instance{}
		if blob {
			doc := buildBlob(d, rep)
			in.docObj, in.pristine = doc, buildBlob(d, rep)
			in.accepted = doc.Validate() == nil
			in.sel = func(q queryD) (*handle, error) {
				var p *trustpolicy.BlobTrustPolicy
				var err error
				if q.Kind == "global" {
					p, err = doc.GetGlobalTrustPolicy()
				} else {
					p, err = doc.GetApplicableTrustPolicy(q.Arg)
				}
				if err != nil {
					return nil, err
				}
				return &handle{name: &p.Name, sv: &p.SignatureVerification, global: &p.GlobalPolicy, stores: &p.TrustStores, ids: &p.TrustedIdentities}, nil
			}
		} else {
			doc := buildOCI(d, rep)
			in.docObj, in.pristine = doc, buildOCI(d, rep)
			in.accepted = doc.Validate() == nil
			in.sel = func(q queryD) (*handle, error) {
				p, err := doc.GetApplicableTrustPolicy(q.Arg)
				if err != nil {
					return nil, err
				}
				return &handle{name: &p.Name, sv: &p.SignatureVerification, scopes: &p.RegistryScopes, stores: &p.TrustStores, ids: &p.TrustedIdentities}, nil
			}
		}
		return in
	}
	// one call: select, look at the result, then write through it
	type callRec struct {
		term, desc string
		code       int // 0 = a statement, else the error class
	}
	call := func(in *instance, q queryD, script []wrD) callRec {
		h, err := in.sel(q)
		if err != nil {
			k := errCode(err)
			return callRec{CApp("RErr", CN(int64(k))), fmt.Sprintf("error %d: %s", k, Short(err.Error(), 90)), k}
		}
		v := h.view()
		rec := callRec{CApp("RSel", stmtTerm(v)), "statement " + fmt.Sprintf("%q scopes=%q level=%s override=%v stores=%q ids=%q global=%v", v.Name, v.Scopes, v.Level, v.Override, v.Stores, v.Ids, v.Global), 0}
		for _, x := range script {
			h.apply(x)
		}
		return rec
	}
	scriptOf := func(c *caseD) []wrD {
		if c.WAll != "" {
			return wall(c.WAll)
		}
		return c.WS
	}
	emit := func(my int64, c *caseD, r1, r2 callRec, sv int, vt, vd string) {
		script := scriptOf(c)
		c.R1, c.R2 = r1.desc, r2.desc
		c.SV, c.VerObs = sv, vd
		var wsTerm string
		if c.WAll != "" {
			wsTerm = CApp("wall", CStr(c.WAll))
		} else {
			items := make([]string, len(c.WS))
			for i, x := range c.WS {
				items[i] = wrTerm(x)
			}
			wsTerm = CList(items)
		}
		in := CApp("mk_input", docTerm(c.Doc), CBool(c.Accepted), queryTerm(c.Q1), wsTerm, queryTerm(c.Q2), CBool(c.Ver), CBool(c.Rep))
		obs := CApp("mk_obs", r1.term, r2.term, CBool(c.Same), CN(int64(sv)), vt)
		term := CApp("mk_case", CN(my), in, obs)
		refused := r1.code == 1 || r1.code == 2 || r1.code == 4
		nontriv := !refused && (len(c.Doc) >= 2 || (r1.code == 0 && len(script) > 0))
		key := fmt.Sprintf("%v|%s|%v|%v|%v|%v|%v|%v|%s", c.Blob, docTerm(c.Doc), c.Q1, c.WAll, c.WS, c.Q2, c.Ver, c.Rep, c.Hist)
		w.Add(my, term, c, key, nontriv)
		w.Count("family", c.Family)
		w.Count("statements", fmt.Sprint(len(c.Doc)))
		w.Count("accepted", fmt.Sprint(c.Accepted))
		w.Count("empty_values", map[bool]string{false: "nil", true: "non-nil"}[c.Rep])
		if r1.code != 0 {
			w.Count("first_result", fmt.Sprintf("error %d", r1.code))
		} else {
			w.Count("first_result", "statement")
		}
		if c.Family == "blank-named" && c.Q1.Kind == "name" && strings.TrimSpace(c.Q1.Arg) == "" && c.Q1.Arg != "" {
			// the document lists a statement of exactly this name
			w.Count("blank_named_own_name", fmt.Sprintf("Validate accepted=%v, result=%s, verifier=%s", c.Accepted, Short(r1.desc, 40), vd))
		}
		w.Count("writes", fmt.Sprint(len(script)))
		w.Count("verifier", strings.SplitN(vd, ":", 2)[0])
	}

	runCase := func(c *caseD) {
		my := id
		id++
		if !w.Want(my) {
			return
		}
		var panicked any
		func() {
			defer func() {
				if r := recover(); r != nil {
					panicked = r
				}
			}()
			in := newInstance(c.Blob, c.Doc, c.Rep)
			c.Accepted = in.accepted
			r1 := call(in, c.Q1, scriptOf(c))
			r2 := call(in, c.Q2, nil)
			c.Same = reflect.DeepEqual(in.docObj, in.pristine)
			c.Ver = c.Ver && c.Accepted
			sv, vt, vd := 9, "VNA", "not observed"
			if c.Ver {
				if ve == nil {
					ve = newVerEnv()
				}
				sv, vt, vd = ve.observe(c.Blob, c.Doc, c.Rep, c.Q1)
			}
			emit(my, c, r1, r2, sv, vt, vd)
		}()
		if panicked != nil {
			w.ImplViolation(my, fmt.Sprintf("panic during selection: %v", panicked), c, "panic")
		}
	}

	// runHistory: ONE document object and ONE verifier live through the calls qs[0], qs[1], ...;
	// after call k the caller writes scripts[k] through what it received. Step k is emitted as
	// its own case (first selection = call k, later selection = call k+1, verifier level = the
	// k-th use of the long-lived verifier) and judged on its own input: the model knows nothing
	// of earlier calls, so anything remembered across calls shows up as a disagreement.
	runHistory := func(fam string, blob bool, d []stmtD, rep bool, qs []queryD, scripts [][]wrD, ver bool) {
		n := len(qs) - 1
		if n < 1 {
			return
		}
		first := id
		id += int64(n)
		wanted := false
		for k := 0; k < n; k++ {
			wanted = wanted || w.Want(first+int64(k))
		}
		if !wanted {
			return
		}
		var panicked any
		func() {
			defer func() {
				if r := recover(); r != nil {
					panicked = r
				}
			}()
			in := newInstance(blob, d, rep)
			var vi *verInst
			if ver && in.accepted {
				if ve == nil {
					ve = newVerEnv()
				}
				vi = ve.newVerifier(blob, d, rep)
			}
			recs := make([]callRec, n+1)
			same := make([]bool, n+1)
			type vo struct {
				sv     int
				vt, vd string
			}
			vobs := make([]vo, n+1)
			for k := 0; k <= n; k++ {
				var sc []wrD
				if k < len(scripts) {
					sc = scripts[k]
				}
				recs[k] = call(in, qs[k], sc)
				same[k] = reflect.DeepEqual(in.docObj, in.pristine)
				vobs[k] = vo{9, "VNA", "not observed"}
				if vi != nil && k < n {
					sv, vt, vd := ve.observeOn(vi, qs[k])
					vobs[k] = vo{sv, vt, vd}
				}
			}
			for k := 0; k < n; k++ {
				my := first + int64(k)
				if !w.Want(my) {
					continue
				}
				c := &caseD{Family: fam, Blob: blob, Doc: d, Q1: qs[k], Q2: qs[k+1], Ver: vi != nil, Rep: rep,
					Hist:     fmt.Sprintf("step %d of %d on one document object and one verifier; calls so far: %v", k+1, n, qs[:k+2]),
					Accepted: in.accepted, Same: same[k+1]}
				if k < len(scripts) {
					c.WS = scripts[k]
				}
				emit(my, c, recs[k], recs[k+1], vobs[k].sv, vobs[k].vt, vobs[k].vd)
			}
		}()
		if panicked != nil {
			w.ImplViolation(first, fmt.Sprintf("panic during a history of selections: %v", panicked), &caseD{Family: fam, Blob: blob, Doc: d, Rep: rep}, "panic")
		}
	}

	pickScript := func(r *Rng, c *caseD) {
		switch k := r.Intn(10); {
		case k < 5:
			c.WAll = "x"
		case k < 8:
			c.WS = randomWrites(r, c.Blob)
		}
	}

	// ---- family 1: OCI documents x permutations x references ----
	type baseDoc struct {
		d    []stmtD
		refs []string
		fam  string
	}
	mkOCIDoc := func(r *Rng, n int, wild bool, defect int) baseDoc {
		pool := append([]string(nil), scopeAlphabet...)
		Shuffle(r, pool)
		// bias: keep the near-identical family together in most documents
		if r.Chance(2, 3) {
			core := []string{"reg.io/a/b", "reg.io/a/b/c", "reg.io/a/bc", "reg.io/a", "REG.io/a/b", "reg.io:80/a/b", "reg.io.evil/a/b"}
			Shuffle(r, core)
			seen := map[string]bool{}
			var np []string
			for _, s := range append(core, pool...) {
				if !seen[s] {
					seen[s] = true
					np = append(np, s)
				}
			}
			pool = np
		}
		d := make([]stmtD, n)
		next := 0
		wi := -1
		if wild {
			wi = r.Intn(n)
		}
		var listed []string
		for k := 0; k < n; k++ {
			d[k].Name = fmt.Sprintf("p%d", k)
			if k == wi {
				d[k].Scopes = []string{"*"}
			} else {
				m := 1 + r.Intn(3)
				if n == 1 {
					m = 1 + r.Intn(4)
				}
				d[k].Scopes = append([]string(nil), pool[next:next+m]...)
				listed = append(listed, d[k].Scopes...)
				next += m
			}
			content(r, k, &d[k])
		}
		fam := "oci"
		switch defect {
		case 1: // a scope used by two statements
			owner, other := -1, -1
			for k := 0; k < n; k++ {
				if k == wi {
					continue
				}
				if owner < 0 {
					owner = k
				} else if other < 0 {
					other = k
				}
			}
			if other >= 0 {
				d[other].Scopes = append(d[other].Scopes, d[owner].Scopes[0])
				fam = "oci-dup-scope"
			}
		case 2: // wildcard mixed with a path
			if wi >= 0 {
				d[wi].Scopes = []string{"*", pool[next]}
				listed = append(listed, pool[next])
				fam = "oci-wild-mixed"
			}
		case 3: // two wildcard statements
			if n >= 2 {
				k := (wi + 1) % n
				if wi < 0 {
					k = 0
					d[n-1].Scopes = []string{"*"}
				}
				d[k].Scopes = []string{"*"}
				fam = "oci-two-wild"
			}
		case 4: // duplicate name
			if n >= 2 {
				d[1].Name = d[0].Name
				fam = "oci-dup-name"
			}
		case 5: // empty scopes
			d[r.Intn(n)].Scopes = nil
			fam = "oci-no-scope"
		}
		// reference pool: listed scopes, their neighbours, unlisted, malformed
		var refs []string
		seen := map[string]bool{}
		add := func(x string) {
			if !seen[x] {
				seen[x] = true
				refs = append(refs, x)
			}
		}
		for _, p := range listed {
			add(p + "@" + dig1)
		}
		var near []string
		for _, p := range listed {
			near = append(near, p+"/c@"+dig1, p+"c@"+dig1, p+":v1@"+dig1, p+":v1", p, p+"@x@"+dig1, strings.ToUpper(p[:1])+p[1:]+"@"+dig1,
				p+"@"+dig2, p+"@"+dig1+"@"+dig2)
			if i := strings.LastIndex(p, "/"); i > 0 && strings.Contains(p[:i], "/") {
				near = append(near, p[:i]+"@"+dig1)
			}
			if i := strings.Index(p, "/"); i > 0 {
				near = append(near, p[:i]+":80"+p[i:]+"@"+dig1, p[:i]+".evil"+p[i:]+"@"+dig1, p[1:]+"@"+dig1, strings.ToUpper(p[:i])+p[i:]+"@"+dig1)
			}
		}
		Shuffle(r, near)
		nn := 4
		if thorough {
			nn = 12
		}
		for i := 0; i < len(near) && i < nn; i++ {
			add(near[i])
		}
		for i := 0; i < 2; i++ {
			add(pool[len(pool)-1-i] + "@" + dig1)
		}
		nm := 2
		if thorough {
			nm = 6
		}
		for i := 0; i < nm; i++ {
			add(Pick(r, malformedRefs))
		}
		return baseDoc{d: d, refs: refs, fam: fam}
	}

	runOCIDoc := func(b baseDoc, r *Rng) {
		for _, p := range permutations(len(b.d)) {
			d := permute(b.d, p)
			for _, ref := range b.refs {
				c := &caseD{Family: b.fam, Doc: d, Q1: queryD{"oci", ref}, Q2: queryD{"oci", ref}, Ver: r.Chance(1, 3), Rep: r.Chance(1, 3)}
				pickScript(r, c)
				if r.Chance(1, 5) {
					c.Q2 = queryD{"oci", Pick(r, b.refs)}
				}
				runCase(c)
			}
		}
	}

	// regression first: the override map of the statement handed out (fix 355ef9e)
	{
		d := []stmtD{{Name: "p0", Scopes: []string{"reg.io/a/b"}, Level: "strict", Override: map[string]string{"revocation": "log"}, Stores: []string{"ca:k0"}, Ids: []string{"*"}},
			{Name: "p1", Scopes: []string{"*"}, Level: "audit", Stores: []string{"ca:k1"}, Ids: []string{"*"}}}
		ref := queryD{"oci", "reg.io/a/b@" + dig1}
		runCase(&caseD{Family: "regression", Doc: d, Q1: ref, Q2: ref, WS: []wrD{{Op: "mapset", K: "revocation", V: "skip"}}, Ver: true})
		runCase(&caseD{Family: "regression", Doc: d, Q1: ref, Q2: ref, WAll: "x", Ver: true})
		bd := []stmtD{{Name: "g", Level: "strict", Override: map[string]string{"revocation": "log"}, Stores: []string{"ca:k0"}, Ids: []string{"*"}, Global: true}}
		runCase(&caseD{Family: "regression", Blob: true, Doc: bd, Q1: queryD{"global", ""}, Q2: queryD{"name", "g"}, WS: []wrD{{Op: "mapset", K: "revocation", V: "skip"}}, Ver: true})
	}

	sizes := []int{1, 1, 1, 1, 2, 2, 2, 2, 2, 2, 2, 2, 3, 3, 3, 3, 3, 3, 3, 3, 3, 3, 4, 4, 4, 4, 4, 4, 4, 4}
	rounds := 1
	if thorough {
		rounds = 10
	}
	for round := 0; round < rounds; round++ {
		for k, n := range sizes {
			r := rng.Fork(uint64(1000 + round*100 + k))
			runOCIDoc(mkOCIDoc(r, n, k%2 == 0, 0), r)
		}
		// documents violating one validity rule (the model must still agree; the oracle applies when its facts hold)
		for k, defect := range []int{1, 2, 3, 4, 5, 1, 2, 3} {
			r := rng.Fork(uint64(5000 + round*100 + k))
			n := 2 + k%2
			runOCIDoc(mkOCIDoc(r, n, true, defect), r)
		}
	}

	// ---- family 2: blob documents x permutations x queries ----
	nameAlphabet := []string{"a", "A", "ab", "a ", " a", "b", "a/b", "\xc3\xa5", "a\tb", "aa", " ", "*"}
	blankNames := []string{"", " ", "\t", " \t\n\v\f\r ", "\xc2\xa0", "\xc2\x85", "\xe2\x80\x83", "\xe3\x80\x80", " \xe2\x80\xaf\xe2\x81\x9f\xe1\x9a\x80", "\xc2", " \xc2\xa1", "\xe2\x80\x8b", "\xe2\x80", "\xe2\x80\xa8\xe2\x80\xa9"}
	mkBlobDoc := func(r *Rng, n int, globals int, dupName bool) ([]stmtD, []queryD, string) {
		pool := append([]string(nil), nameAlphabet...)
		Shuffle(r, pool)
		d := make([]stmtD, n)
		for k := 0; k < n; k++ {
			d[k].Name = pool[k]
			content(r, k, &d[k])
		}
		fam := "blob"
		order := make([]int, n)
		for i := range order {
			order[i] = i
		}
		Shuffle(r, order)
		g := 0
		for _, k := range order {
			if g < globals && d[k].Level != "skip" {
				d[k].Global = true
				g++
			}
		}
		if globals > 1 {
			fam = "blob-two-global"
		}
		if dupName && n >= 2 {
			d[1].Name = d[0].Name
			fam = "blob-dup-name"
		}
		var qs []queryD
		seen := map[string]bool{}
		add := func(q queryD) {
			k := q.Kind + "|" + q.Arg
			if !seen[k] {
				seen[k] = true
				qs = append(qs, q)
			}
		}
		add(queryD{"global", ""})
		for _, s := range d {
			add(queryD{"name", s.Name})
		}
		var near []string
		for _, s := range d {
			near = append(near, s.Name+" ", " "+s.Name, strings.ToUpper(s.Name), strings.ToLower(s.Name), s.Name+"a", strings.TrimSpace(s.Name), s.Name[:len(s.Name)-1])
		}
		Shuffle(r, near)
		for i := 0; i < len(near) && i < 3; i++ {
			add(queryD{"name", near[i]})
		}
		add(queryD{"name", pool[len(pool)-1]})
		add(queryD{"name", ""})
		add(queryD{"name", Pick(r, blankNames)})
		return d, qs, fam
	}
	runBlobDoc := func(d0 []stmtD, qs []queryD, fam string, r *Rng) {
		for _, p := range permutations(len(d0)) {
			d := permute(d0, p)
			for _, q := range qs {
				c := &caseD{Family: fam, Blob: true, Doc: d, Q1: q, Q2: q, Ver: r.Chance(1, 3), Rep: r.Chance(1, 3)}
				pickScript(r, c)
				if r.Chance(1, 4) {
					c.Q2 = Pick(r, qs)
				}
				runCase(c)
			}
		}
	}
	bsizes := []int{1, 1, 2, 2, 2, 2, 3, 3, 3, 3, 3, 4, 4, 4}
	for round := 0; round < rounds; round++ {
		for k, n := range bsizes {
			r := rng.Fork(uint64(20000 + round*100 + k))
			d, qs, fam := mkBlobDoc(r, n, k%3%2, false) // 0,1,0 globals
			runBlobDoc(d, qs, fam, r)
		}
		for k := 0; k < 4; k++ {
			r := rng.Fork(uint64(25000 + round*100 + k))
			d, qs, fam := mkBlobDoc(r, 2+k%2, 1+k%2, k >= 2)
			runBlobDoc(d, qs, fam, r)
		}
		// every blank name once
		r := rng.Fork(uint64(26000 + round))
		d, _, _ := mkBlobDoc(r, 2, 1, false)
		for _, bn := range blankNames {
			runCase(&caseD{Family: "blob-blank", Blob: true, Doc: d, Q1: queryD{"name", bn}, Q2: queryD{"name", bn}, Ver: true})
		}
	}

	// ---- family 3: every malformed reference, and fuzzed registry/repository strings ----
	{
		wildOnly := []stmtD{{Name: "w", Scopes: []string{"*"}, Level: "skip"}}
		two := []stmtD{{Name: "e", Scopes: []string{"reg.io/a/b", "reg.io/a"}, Level: "skip"}, {Name: "w", Scopes: []string{"*"}, Level: "skip"}}
		for _, ref := range malformedRefs {
			q := queryD{"oci", ref}
			runCase(&caseD{Family: "malformed", Doc: two, Q1: q, Q2: q, Ver: true})
		}
		alpha := []string{"a", "b", "0", "A", ".", "-", "_", "/", ":", "8", "*", "@", "a", "/", "."}
		nf := 500
		if thorough {
			nf = 12000
		}
		r := rng.Fork(30000)
		for k := 0; k < nf; k++ {
			var sb strings.Builder
			if r.Chance(1, 2) {
				sb.WriteString(Pick(r, []string{"reg.io", "r", "a.b", "a-b", "r:5", "R.io"}))
				sb.WriteString("/")
			}
			n := 1 + r.Intn(7)
			for i := 0; i < n; i++ {
				sb.WriteString(Pick(r, alpha))
			}
			ref := sb.String()
			if r.Chance(9, 10) {
				ref += "@" + dig2
			}
			q := queryD{"oci", ref}
			runCase(&caseD{Family: "fuzz", Doc: wildOnly, Q1: q, Q2: q})
		}
	}
	// ---- family 4: empty values of the document that are nil / empty but non-nil ----
	{
		d := []stmtD{{Name: "p0", Scopes: []string{"reg.io/a/b"}, Level: "strict", Stores: []string{"ca:k0"}, Ids: []string{"*"}},
			{Name: "p1", Scopes: []string{"*"}, Level: "skip"}}
		bd := []stmtD{{Name: "g", Level: "strict", Stores: []string{"ca:k0"}, Ids: []string{"*"}, Global: true}, {Name: "s", Level: "skip"}}
		scripts := [][]wrD{nil, {{Op: "mapset", K: "revocation", V: "skip"}}, {{Op: "append", F: "FStores", V: "ca:evil"}, {Op: "append", F: "FIds", V: "*"}},
			{{Op: "mapset", K: "x", V: "y"}, {Op: "mapdel", K: "x"}}}
		for _, rep := range []bool{false, true} {
			for _, ref := range []string{"reg.io/a/b@" + dig1, "reg.io/x@" + dig1} {
				q := queryD{"oci", ref}
				runCase(&caseD{Family: "empty-values", Doc: d, Q1: q, Q2: q, WAll: "x", Rep: rep, Ver: true})
				for _, sc := range scripts[1:] {
					runCase(&caseD{Family: "empty-values", Doc: d, Q1: q, Q2: q, WS: sc, Rep: rep, Ver: true})
				}
			}
			for _, q := range []queryD{{"global", ""}, {"name", "g"}, {"name", "s"}} {
				runCase(&caseD{Family: "empty-values", Blob: true, Doc: bd, Q1: q, Q2: q, WAll: "x", Rep: rep, Ver: true})
				for _, sc := range scripts[1:] {
					runCase(&caseD{Family: "empty-values", Blob: true, Doc: bd, Q1: q, Q2: q, WS: sc, Rep: rep})
				}
			}
		}
	}

	// ---- family 5: the matching scope at every position of its statement, the matching
	// statement at every position of the document (wildcard and foreign statements before / after) ----
	{
		r := rng.Fork(40000)
		groups := [][]string{{"reg.io/a/b", "reg.io/a/b/c", "reg.io/a", "reg.io/a/bc"}, {"reg.io:80/a/b", "REG.io/a/b", "reg.io.evil/a/b"}}
		for v, scopes := range groups {
			for rot := 0; rot < len(scopes); rot++ {
				sc := append(append([]string(nil), scopes[rot:]...), scopes[:rot]...)
				d := []stmtD{{Name: "p0", Scopes: sc}, {Name: "p1", Scopes: []string{"g.io/a/b"}}, {Name: "p2", Scopes: []string{"*"}}}
				for k := range d {
					content(r, k, &d[k])
				}
				for pi, p := range permutations(3) {
					dd := permute(d, p)
					for _, x := range append(append([]string(nil), sc...), sc[len(sc)-1]+"/x", "g.io/a/b") {
						q := queryD{"oci", x + "@" + dig1}
						c := &caseD{Family: "position", Doc: dd, Q1: q, Q2: q, Rep: (rot+pi)%2 == 1, Ver: v == 0 && pi%3 == 0}
						if pi%2 == 0 {
							c.WAll = "x"
						}
						runCase(c)
					}
				}
			}
		}
	}

	// ---- family 6: rarely used legal syntax of registry / repository / reference ----
	{
		rare := []string{"10.0.0.1:5000/a/b", "localhost/a", "r/a", "0/0", "REG.IO/a/b", "reg-1.io/a", "xn--bcher-kva.io/a", "reg.io/a__b", "reg.io/a--b",
			"reg.io/a---b", "reg.io/a.b_c-d/e", "reg.io:0/a", "reg.io/a/b/c/d/e/f/g/h", "a.b.c.d.e/f", "reg.io/0", "A/a", "reg.io:65536/a", "a-b.c-d:1/e.f/g_h/i-j"}
		r := rng.Fork(41000)
		for k, sc := range rare {
			d := []stmtD{{Name: "p0", Scopes: []string{sc}}}
			if k%2 == 0 {
				d = append(d, stmtD{Name: "p1", Scopes: []string{"*"}})
			}
			for j := range d {
				content(r, j, &d[j])
			}
			if k%4 >= 2 {
				d = permute(d, permutations(len(d))[len(d)-1])
			}
			flip := strings.ToUpper(sc)
			if flip == sc {
				flip = strings.ToLower(sc)
			}
			for _, ref := range []string{sc + "@" + dig1, sc + "@", sc + "@sha512:a/b:c", sc + "@x@" + dig1, flip + "@" + dig1, sc + "/@" + dig1, sc + ":1@" + dig1, sc} {
				q := queryD{"oci", ref}
				runCase(&caseD{Family: "rare-syntax", Doc: d, Q1: q, Q2: q, Rep: k%3 == 0, Ver: ref == sc+"@"+dig1})
			}
		}
	}

	// ---- family 7: histories — one long-lived document object and one long-lived verifier ----
	{
		pickScriptH := func(r *Rng, blob bool) []wrD {
			switch k := r.Intn(10); {
			case k < 4:
				return wall("x")
			case k < 7:
				return randomWrites(r, blob)
			}
			return nil
		}
		// a fixed one: same registry, different repositories, wildcard, other registry, refused, and back
		{
			d := []stmtD{{Name: "p0", Scopes: []string{"reg.io/a/b"}, Level: "strict", Stores: []string{"ca:k0"}, Ids: []string{"*"}},
				{Name: "p1", Scopes: []string{"reg.io/a/b/c", "reg.io/a"}, Level: "permissive", Override: map[string]string{"revocation": "log"}, Stores: []string{"ca:k1"}, Ids: []string{"*"}},
				{Name: "p2", Scopes: []string{"g.io/a/b"}, Level: "skip"},
				{Name: "p3", Scopes: []string{"*"}, Level: "audit", Stores: []string{"ca:k3"}, Ids: []string{"*"}}}
			var qs []queryD
			for _, x := range []string{"reg.io/a/b@" + dig1, "reg.io/a/b/c@" + dig1, "reg.io/zzz@" + dig1, "g.io/a/b@" + dig1, "reg.io/a/b@" + dig2, "reg.io/a/b:v1", "reg.io/a@" + dig1, "g.io/x@" + dig1, "reg.io/a/b@" + dig1} {
				qs = append(qs, queryD{"oci", x})
			}
			for pi, p := range permutations(4) {
				if pi%4 != 0 && !thorough {
					continue
				}
				scripts := make([][]wrD, len(qs))
				for k := range scripts {
					if (k+pi)%2 == 0 {
						scripts[k] = wall("x")
					}
				}
				runHistory("history-oci", false, permute(d, p), pi%8 == 4, qs, scripts, true)
			}
			d3 := d[:3] // no wildcard: unlisted repositories are refused in between
			runHistory("history-oci", false, d3, false, qs, nil, true)
			bd := []stmtD{{Name: "a", Level: "strict", Stores: []string{"ca:k0"}, Ids: []string{"*"}},
				{Name: "A", Level: "audit", Stores: []string{"ca:k1"}, Ids: []string{"*"}, Global: true},
				{Name: "ab", Level: "skip"}}
			var bq []queryD
			for _, x := range []string{"a", "A", "ab", "b", "a ", "", "a", " "} {
				bq = append(bq, queryD{"name", x})
			}
			bq = append(bq, queryD{"global", ""}, queryD{"name", "A"}, queryD{"name", "a"})
			for pi, p := range permutations(3) {
				scripts := make([][]wrD, len(bq))
				for k := range scripts {
					if (k+pi)%2 == 0 {
						scripts[k] = wall("x")
					}
				}
				runHistory("history-blob", true, permute(bd, p), pi%2 == 1, bq, scripts, true)
			}
			runHistory("history-blob", true, bd[:1], false, bq, nil, true) // no global statement
		}
		nh := 16
		if thorough {
			nh = 200
		}
		for k := 0; k < nh; k++ {
			r := rng.Fork(uint64(50000 + k))
			b := mkOCIDoc(r, 2+k%3, k%2 == 0, 0)
			ps := permutations(len(b.d))
			d := permute(b.d, ps[r.Intn(len(ps))])
			var qs []queryD
			var scripts [][]wrD
			last := ""
			for len(qs) < 6 {
				ref := Pick(r, b.refs)
				if len(qs)%2 == 0 { // every other call hits a listed scope
					ref = b.refs[r.Intn(len(b.refs)/3+1)]
				}
				if ref == last && r.Chance(3, 4) {
					continue
				}
				last = ref
				qs = append(qs, queryD{"oci", ref})
				scripts = append(scripts, pickScriptH(r, false))
			}
			runHistory("history-oci", false, d, r.Chance(1, 3), qs, scripts, true)
		}
		for k := 0; k < nh/2; k++ {
			r := rng.Fork(uint64(52000 + k))
			d0, bqs, _ := mkBlobDoc(r, 2+k%3, k%2, false)
			ps := permutations(len(d0))
			d := permute(d0, ps[r.Intn(len(ps))])
			var qs []queryD
			var scripts [][]wrD
			for len(qs) < 6 {
				qs = append(qs, Pick(r, bqs))
				scripts = append(scripts, pickScriptH(r, true))
			}
			runHistory("history-blob", true, d, r.Chance(1, 3), qs, scripts, true)
		}
	}
	// ---- family 8 (theorem audit): the witness of C08_blob_name_full_refuted /
	// C08_blank_named_statement_refuted on the real code — a blob document that Validate()
	// accepts, with a statement whose name is white space only, asked for exactly that name ----
	{
		for _, bn := range []string{" ", "\t", "\xc2\xa0", " \n "} {
			bd := []stmtD{{Name: bn, Level: "strict", Stores: []string{"ca:k0"}, Ids: []string{"*"}},
				{Name: "g", Level: "strict", Stores: []string{"ca:k1"}, Ids: []string{"*"}, Global: true}}
			for pi, p := range permutations(2) {
				d := permute(bd, p)
				for _, q := range []queryD{{"name", bn}, {"name", "g"}, {"global", ""}, {"name", ""}} {
					runCase(&caseD{Family: "blank-named", Blob: true, Doc: d, Q1: q, Q2: queryD{"name", bn}, Rep: pi == 1, Ver: true})
				}
			}
		}
	}
	// ---- family 9: NEAR-valid documents, judged on the Go side ----
	// Documents that break exactly one validity rule (two wildcard statements with different
	// content, the same scope in two statements, a wildcard mixed with a scope, duplicate
	// names, two global blob statements), every order of their statements. Oracle: EITHER the
	// real Validate() / NewVerifierWithOptions refuses the document, OR - if the code accepts
	// it - every selection is the same under every permutation of the statements and obeys the
	// exact-match / unique-wildcard (unique name / unique global) rule. The Coq-side oracle
	// cannot see this: spec_ok is conditional on C08_Model.valid_doc, which such a document
	// does not have; a validation that lets it through is a broken premise of C08_order.
	{
		const pA, pAA, pABC, pZ = "reg.io/a/b", "reg.io/a", "reg.io/a/b/c", "reg.io/zzz"
		levelsNV := []string{"strict", "permissive", "audit", "strict"}
		so := func(name string, k int, scopes ...string) stmtD {
			return stmtD{Name: name, Scopes: scopes, Level: levelsNV[k%4], Stores: []string{fmt.Sprintf("ca:k%d", k)}, Ids: []string{"*"}}
		}
		sb := func(name string, k int, global bool) stmtD {
			return stmtD{Name: name, Level: levelsNV[k%4], Stores: []string{fmt.Sprintf("ca:k%d", k)}, Ids: []string{"*"}, Global: global}
		}
		type nearValid struct {
			what string
			blob bool
			d    []stmtD
		}
		docs := []nearValid{
			{"two wildcard statements", false, []stmtD{so("w1", 0, "*"), so("w2", 1, "*")}},
			{"two wildcard statements, one of level skip", false, []stmtD{so("w1", 0, "*"), {Name: "w2", Scopes: []string{"*"}, Level: "skip"}}},
			{"two wildcard statements and an exact one", false, []stmtD{so("e0", 0, pA, pAA), so("w1", 1, "*"), so("w2", 2, "*")}},
			{"two wildcard statements and two exact ones", false, []stmtD{so("e0", 0, pA), so("e1", 1, pABC), so("w1", 2, "*"), so("w2", 3, "*")}},
			{"three wildcard statements", false, []stmtD{so("w1", 0, "*"), so("w2", 1, "*"), so("w3", 2, "*")}},
			{"the same scope in two statements", false, []stmtD{so("e0", 0, pA), so("e1", 1, pA)}},
			{"the same scope in two statements at different positions, with a wildcard statement", false, []stmtD{so("e0", 0, pA, pAA), so("e1", 1, pABC, pA), so("w", 2, "*")}},
			{"the same scope in three statements", false, []stmtD{so("e0", 0, pA), so("e1", 1, pAA, pA), so("e2", 2, pA, pABC)}},
			{"wildcard mixed with a scope (wildcard first)", false, []stmtD{so("m", 0, "*", pA), so("e", 1, pABC)}},
			{"wildcard mixed with a scope (wildcard last) and a wildcard statement", false, []stmtD{so("m", 0, pA, "*"), so("w", 1, "*")}},
			{"wildcard mixed with a scope that another statement lists", false, []stmtD{so("m", 0, "*", pA), so("e", 1, pA)}},
			{"wildcard twice in one statement", false, []stmtD{so("m", 0, "*", "*"), so("e", 1, pA)}},
			{"a scope twice in one statement", false, []stmtD{so("e", 0, pA, pA), so("w", 1, "*")}},
			{"duplicate statement names", false, []stmtD{so("p", 0, pA), so("p", 1, pABC), so("w", 2, "*")}},
			{"duplicate statement names, one of them the wildcard statement", false, []stmtD{so("p", 0, pA), so("p", 1, "*")}},
			{"two global statements", true, []stmtD{sb("g1", 0, true), sb("g2", 1, true)}},
			{"two global statements and a named one", true, []stmtD{sb("a", 0, false), sb("g1", 1, true), sb("g2", 2, true)}},
			{"three global statements", true, []stmtD{sb("g1", 0, true), sb("g2", 1, true), sb("g3", 2, true)}},
			{"duplicate statement names", true, []stmtD{sb("n", 0, false), sb("n", 1, false)}},
			{"duplicate statement names, one of them global", true, []stmtD{sb("n", 0, false), sb("n", 1, true), sb("m", 2, false)}},
			{"duplicate statement names around another statement", true, []stmtD{sb("n", 0, false), sb("m", 1, true), sb("n", 2, false), sb("k", 3, false)}},
		}
		has := func(xs []string, x string) bool {
			for _, y := range xs {
				if y == x {
					return true
				}
			}
			return false
		}
		// rule: does the answer (v == nil: refused) to q on document d obey the selection rule?
		rule := func(d []stmtD, q queryD, v *stmtD) string {
			count := func(f func(s stmtD) bool) int {
				n := 0
				for _, s := range d {
					if f(s) {
						n++
					}
				}
				return n
			}
			switch q.Kind {
			case "oci":
				i := strings.LastIndex(q.Arg, "@")
				if i < 0 {
					if v != nil {
						return "a statement was handed out for a reference without '@'"
					}
					return ""
				}
				path := q.Arg[:i]
				exact := count(func(s stmtD) bool { return has(s.Scopes, path) && !has(s.Scopes, "*") })
				wild := count(func(s stmtD) bool { return has(s.Scopes, "*") })
				switch {
				case v == nil && (exact > 0 || wild > 0):
					return "refused although a statement lists the path or the wildcard"
				case v == nil:
					return ""
				case has(v.Scopes, path) && !has(v.Scopes, "*"):
					if exact != 1 {
						return fmt.Sprintf("%d statements list the path %q: the statement applied is not unique", exact, path)
					}
				case has(v.Scopes, "*"):
					if exact > 0 {
						return "the wildcard statement was applied although a statement lists the path"
					}
					if wild != 1 {
						return fmt.Sprintf("%d wildcard statements: the statement applied is not unique", wild)
					}
				default:
					return "the statement applied lists neither the path nor the wildcard"
				}
			case "name":
				n := count(func(s stmtD) bool { return s.Name == q.Arg })
				switch {
				case v == nil && n > 0:
					return "refused although a statement has that name"
				case v != nil && v.Name != q.Arg:
					return "the statement applied has another name"
				case v != nil && n != 1:
					return fmt.Sprintf("%d statements are named %q: the statement applied is not unique", n, q.Arg)
				}
			case "global":
				n := count(func(s stmtD) bool { return s.Global })
				switch {
				case v == nil && n > 0:
					return "refused although a statement is global"
				case v != nil && !v.Global:
					return "the statement applied is not global"
				case v != nil && n != 1:
					return fmt.Sprintf("%d global statements: the statement applied is not unique", n)
				}
			}
			return ""
		}
		for _, nv := range docs {
			var qs []queryD
			if nv.blob {
				seen := map[string]bool{}
				for _, s := range nv.d {
					if !seen[s.Name] {
						seen[s.Name] = true
						qs = append(qs, queryD{"name", s.Name})
					}
				}
				qs = append(qs, queryD{"global", ""}, queryD{"name", "zz"})
			} else {
				for _, p := range []string{pA, pAA, pABC, pZ, pABC + "/d"} {
					qs = append(qs, queryD{"oci", p + "@" + dig1})
				}
				qs = append(qs, queryD{"oci", pA + ":v1"})
			}
			// the model's view of the same documents (two orders), as ordinary cases
			for _, q := range qs {
				runCase(&caseD{Family: "near-valid", Blob: nv.blob, Doc: nv.d, Q1: q, Q2: q, Ver: true})
			}
			rev := make([]stmtD, len(nv.d))
			for i := range nv.d {
				rev[len(nv.d)-1-i] = nv.d[i]
			}
			for _, q := range qs {
				runCase(&caseD{Family: "near-valid", Blob: nv.blob, Doc: rev, Q1: q, Q2: q, Ver: true})
			}
			// the Go-side oracle: one id per document
			my := id
			id++
			if !w.Want(my) {
				continue
			}
			if ve == nil {
				ve = newVerEnv()
			}
			type answer struct {
				doc      []stmtD
				sel, ver []string // per query; nil = the document was refused at that level
			}
			var answers []answer
			var reported bool
			var ruleWhat string // first breach of the selection rule on an accepted order
			var ruleDesc map[string]any
			breach := func(what string, desc map[string]any) {
				if ruleWhat == "" {
					ruleWhat, ruleDesc = what, desc
				}
			}
			report := func(what string, desc map[string]any) {
				if reported {
					return
				}
				reported = true
				desc["family"] = "near-valid"
				desc["defect"] = nv.what
				desc["blob_document"] = nv.blob
				w.ImplViolation(my, what, desc, "near-valid-accepted")
			}
			var panicked any
			func() {
				defer func() {
					if r := recover(); r != nil {
						panicked = r
					}
				}()
				for _, p := range permutations(len(nv.d)) {
					d := permute(nv.d, p)
					a := answer{doc: d}
					in := newInstance(nv.blob, d, false)
					if in.accepted {
						for _, q := range qs {
							h, err := in.sel(q)
							if err != nil {
								a.sel = append(a.sel, fmt.Sprintf("error %d", errCode(err)))
								if why := rule(d, q, nil); why != "" {
									breach("document accepted by Validate(): "+why, map[string]any{"document": d, "query": q, "result": Short(err.Error(), 120)})
								}
								continue
							}
							v := h.view()
							a.sel = append(a.sel, "statement "+stmtTerm(v))
							if why := rule(d, q, &v); why != "" {
								breach("document accepted by Validate(): "+why, map[string]any{"document": d, "query": q, "result": v})
							}
						}
					}
					store := NewMockStore()
					opts := verifier.VerifierOptions{RevocationCodeSigningValidator: ve.rev.Validator()}
					if nv.blob {
						opts.BlobTrustPolicy = buildBlob(d, false)
					} else {
						opts.OCITrustPolicy = buildOCI(d, false)
					}
					if v, err := verifier.NewVerifierWithOptions(store, opts); err == nil {
						vi := &verInst{v: v, store: store, blob: nv.blob}
						for _, q := range qs {
							sv, _, vd := ve.observeOn(vi, q)
							a.ver = append(a.ver, fmt.Sprintf("skipverify=%d verify=%s", sv, vd))
						}
					}
					answers = append(answers, a)
				}
			}()
			if panicked != nil {
				w.ImplViolation(my, fmt.Sprintf("panic on a near-valid document: %v", panicked), map[string]any{"family": "near-valid", "defect": nv.what, "document": nv.d}, "panic")
				continue
			}
			accSel, accVer := 0, 0
			var firstSel, firstVer *answer
			for i := range answers {
				a := &answers[i]
				if a.sel != nil {
					accSel++
					if firstSel == nil {
						firstSel = a
					}
					for k := range qs {
						if a.sel[k] != firstSel.sel[k] {
							report("document accepted by Validate(), but the statement selected depends on the order of its statements",
								map[string]any{"document_order_A": firstSel.doc, "document_order_B": a.doc, "query": qs[k], "result_A": firstSel.sel[k], "result_B": a.sel[k]})
						}
					}
				}
				if a.ver != nil {
					accVer++
					if firstVer == nil {
						firstVer = a
					}
					for k := range qs {
						if a.ver[k] != firstVer.ver[k] {
							report("document accepted by NewVerifierWithOptions, but what the verifier applies depends on the order of its statements",
								map[string]any{"document_order_A": firstVer.doc, "document_order_B": a.doc, "query": qs[k], "result_A": firstVer.ver[k], "result_B": a.ver[k]})
						}
					}
				}
			}
			// order dependence (document + two orders) is reported in preference to the rule breach
			if !reported && ruleWhat != "" {
				report(ruleWhat, ruleDesc)
			}
			kind := "oci"
			if nv.blob {
				kind = "blob"
			}
			w.Count("near_valid", fmt.Sprintf("%s: %s: orders=%d accepted by Validate=%d by NewVerifierWithOptions=%d", kind, nv.what, len(answers), accSel, accVer))
		}
	}
	_ = sort.Strings
	return w.Close()
}
